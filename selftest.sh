#!/bin/bash
# ./check selftest [seeded-id ...]
# Sensitivity test: applies each seeded change (/verif/seeded/<id>/patch.diff, written by independent sub-agents and
# validated to keep the repository's suite green) to a scratch copy of /repo and requires the check(s) named in its
# meta.json "caught_by" to report a VIOLATION (exit 1) within the quick budget.  /repo itself is never modified.
cd /verif
ids="$@"
[ -z "$ids" ] && ids=$(ls seeded | grep -E '^(R[0-9]-)?C[0-9]+-m[0-9]+$')
fail=0
run_one() {
  id=$1
  props=$(python3 -c "import json;print(' '.join(json.load(open('/verif/seeded/$id/meta.json')).get('caught_by',[])))")
  out=$(tools/seed_run.sh $id $props 2>&1)
  echo "$out"
}
export -f run_one
echo "$ids" | tr ' ' '\n' | xargs -P ${SELFTEST_PAR:-3} -I{} bash -c 'run_one {}' | tee /tmp/selftest.out
missed=$(grep -c -v "exit=1" /tmp/selftest.out)
total=$(wc -l < /tmp/selftest.out)
echo "selftest: $((total-missed))/$total seeded changes detected"
[ "$missed" = 0 ]
