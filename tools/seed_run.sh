#!/bin/bash
# usage: tools/seed_run.sh <seeded-id> [property ...]
# Applies /verif/seeded/<id>/patch.diff to a scratch copy of /repo and runs the given checks (default: the
# property named in meta.json) against it with VERIF_REPO; prints one line per check.
id=$1; shift
dir=/verif/seeded/$id
props="$@"
[ -z "$props" ] && props=$(python3 -c "import json;print(json.load(open('$dir/meta.json'))['property'])")
work=$(mktemp -d /tmp/seedrun-XXXXXX)
cp -r /repo $work/repo && rm -rf $work/repo/.git
(cd $work/repo && git init -q . && git apply $dir/patch.diff) || { echo "$id: patch does not apply"; rm -rf $work; exit 2; }
for p in $props; do
  mkdir -p $work/out
  start=$(date +%s)
  VERIF_REPO=$work/repo VERIF_OUT=$work/out VERIF_SEED=${VERIF_SEED:-1} /verif/check $p ${TIER:-quick} > $work/$p.log 2>&1; rc=$?
  end=$(date +%s)
  kind=$(grep -m1 "kind:" $work/$p.log | cut -c1-150)
  echo "$id $p exit=$rc secs=$((end-start)) $kind"
  mkdir -p /tmp/seedlogs; cp $work/$p.log /tmp/seedlogs/$id.$p.log
done
rm -rf $work
