#!/bin/bash
# usage: tools/runall.sh [tier] [seed] [outdir]   - runs every check once, prints a summary line per property
tier=${1:-quick}; seed=${2:-1}; out=${3:-}
cd "$(dirname "${BASH_SOURCE[0]}")/.."
for p in C01 C02 C03 C04 C05 C06 C07 C08 C09 C10 C11 C12 C13 C14 C15 C16 C17 C18 C19 C20; do
  s=$(date +%s)
  if [ -n "$out" ]; then mkdir -p $out; VERIF_OUT=$out VERIF_SEED=$seed ./check $p $tier > /tmp/runall.$p.$seed.log 2>&1; else VERIF_SEED=$seed ./check $p $tier > /tmp/runall.$p.$seed.log 2>&1; fi
  rc=$?
  e=$(date +%s)
  echo "$p seed=$seed exit=$rc secs=$((e-s)) $(tail -1 /tmp/runall.$p.$seed.log | cut -c1-160)"
done
