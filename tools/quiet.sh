#!/bin/bash
# usage: tools/quiet.sh <from-seed> <to-seed> [tier]  - runs every check at each seed; prints only non-OK results and a summary
cd "$(dirname "${BASH_SOURCE[0]}")/.."
from=$1; to=$2; tier=${3:-quick}
bad=0
for seed in $(seq $from $to); do
  tools/runall.sh $tier $seed /tmp/quiet-$seed > /tmp/quiet.$seed.log 2>&1
  n=$(grep -c -v "exit=0" /tmp/quiet.$seed.log)
  echo "seed $seed: $(grep -c 'exit=0' /tmp/quiet.$seed.log) ok, $n not ok $(grep -v 'exit=0' /tmp/quiet.$seed.log | awk '{print $1}' | tr '\n' ' ')"
  bad=$((bad+n))
done
echo "total not ok: $bad"
