#!/bin/bash
# Validates sub-agent mutants in /tmp/wtout/<prop>/m<k>: the patch applies to the current /repo HEAD, the repository's
# suite still passes (96 baseline tests), demo.sh exits 0 unpatched and 1 patched.  Validated mutants are copied to
# /verif/seeded/<prop>-m<k>/.
set -u
OUT=${SEED_OUT:-/tmp/wtout}
PFX=${SEED_PREFIX:-}
BASE=$(python3 -c "import json;print('\n'.join(json.load(open('/root/.vp/BASELINE.json'))['stable_pass']))" | sort)
one() {
  p=$1; k=$2
  src=$OUT/$p/$k
  [ -f $src/patch.diff ] || { echo "$p-$k: no patch"; return; }
  id=$PFX$p-$k
  work=/tmp/mr/$id
  rm -rf $work; mkdir -p /tmp/mr; cp -r /repo $work; rm -rf $work/.git
  (cd $work && git init -q . && git add -A >/dev/null 2>&1 && git commit -qm base >/dev/null 2>&1)
  # unpatched demo
  (cd $src && timeout 600 bash ./demo.sh $work > /tmp/mr/$id.demo0.log 2>&1); d0=$?
  if ! (cd $work && git apply $src/patch.diff 2>/tmp/mr/$id.apply.log); then echo "$id: patch does not apply"; rm -rf $work; return; fi
  (cd $work && go build ./... > /tmp/mr/$id.build.log 2>&1) || { echo "$id: does not build"; rm -rf $work; return; }
  (cd $src && timeout 600 bash ./demo.sh $work > /tmp/mr/$id.demo1.log 2>&1); d1=$?
  passed=$(cd $work && go test -vet=off -count=1 -json ./... 2>/dev/null | python3 -c "
import sys,json
p=set()
for l in sys.stdin:
    try: e=json.loads(l)
    except: continue
    if e.get('Test') and e['Action']=='pass': p.add(e['Package']+'::'+e['Test'])
print('\n'.join(sorted(p)))")
  missing=$(comm -23 <(echo "$BASE") <(echo "$passed" | sort) | wc -l)
  echo "$id: demo_unpatched=$d0 demo_patched=$d1 baseline_tests_missing=$missing"
  if [ $d0 = 0 ] && [ $d1 = 1 ] && [ $missing = 0 ]; then
    dst=/verif/seeded/$id
    rm -rf $dst; mkdir -p $dst
    cp -r $src/. $dst/
    rm -rf $dst/scratch $dst/tmp
    python3 - $dst $p <<PY
import json,sys
dst,p=sys.argv[1],sys.argv[2]
try: m=json.load(open(dst+'/meta.json'))
except Exception: m={}
m['property']=p
m['validated']={'demo_unpatched_exit':0,'demo_patched_exit':1,'suite':'all 96 baseline tests pass with the patch (go test -vet=off -count=1 -json ./...)','how':'tools/seed_validate.sh on a scratch copy of /repo HEAD'}
json.dump(m,open(dst+'/meta.json','w'),indent=1)
PY
  fi
  rm -rf $work
}
export -f one
if [ $# -gt 0 ]; then for x in "$@"; do one ${x%-*} ${x#*-}; done; exit; fi
export OUT PFX
for p in C01 C02 C03 C04 C05 C06 C07 C08 C09 C10 C11 C12 C13 C14 C15 C16 C17 C18 C19 C20; do for k in m1 m2; do echo "$p $k"; done; done | xargs -P 4 -L 1 bash -c 'BASE="$(python3 -c "import json;print(chr(10).join(json.load(open(\"/root/.vp/BASELINE.json\"))[\"stable_pass\"]))" | sort)"; one $0 $1'
