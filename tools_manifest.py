#!/usr/bin/env python3
"""Regenerates /verif/MANIFEST.json from the table below (keeps it valid at all times)."""
import json, os, subprocess, sys
V = os.path.dirname(os.path.abspath(__file__))
props = [json.loads(l) for l in open(os.path.join(V, "properties.jsonl"))]
ids = [p["id"] for p in props]

# id -> (level, text, note, technique, design_ref)
T_WF = "property-based testing: rapid generator of well-formed Wire programs + reference model oracle; real wire CLI, go build and instrumented execution; rapid shrinking to a replay spec"
T_MUT = "property-based testing: rapid generator of well-formed programs + typed defect injectors; reference-model verdict vs wire exit status, diagnostics and output files; rapid shrinking"
N_WF = "Trusted: go toolchain and runtime, the reference model harness/eng/model.go (documented semantics, ~600 lines, every generated program is also type-checked by Go), the trace instrumentation. Absence of violations is not established; evidence reports cases and classes explored."
claimed = {
 "C01": ("exploration", "Generated well-formed multi-package programs over ~30 type shapes and all documented Wire forms go through `wire gen`; every accepted package is parsed (one implementation per injector) and compiled without the wireinject tag next to typed function-variable assignments that force signature identity.", N_WF, T_WF, "DESIGN.md §4 C01"),
 "C02": ("exploration", "Accepted generated programs are executed with instrumented providers; the designated source of every provider parameter, struct field, selected field and result (from the reference model) is evaluated over the observed value trees (with pointer identity classes); providers run exactly the needed set once.", N_WF, T_WF, "DESIGN.md §4 C02"),
 "C03": ("fault_enumeration", "For every injector of every generated program every error-capable provider is failed in turn (enumerated), then a drawn sequence alternates failures and successes; per faulted call the unwinding contract (no further call, reverse cleanups once each, own cleanup never, zero result, nil cleanup, identical error) is checked on the runtime trace.", N_WF, "property-based testing with fault enumeration: rapid program generator x every single-provider failure point + drawn call sequences; trace oracle", "DESIGN.md §4 C03"),
 "C04": ("exploration", "Fault-free executions of generated injectors that declare a cleanup: non-nil function also with zero cleanup providers, nothing cleaned before the caller's call, then exact reverse of the observed acquisition order, and dependency-before-dependent independently.", N_WF, T_WF, "DESIGN.md §4 C04"),
 "C05": ("exploration", "A well-formed base plus one injected second source (8 duplicate kinds x 9 victim kinds x identity flavours x placements x Build/NewSet incl. unused parts); the reference model decides conflict; wire must fail with `multiple bindings for <T>` and write nothing, negative controls must keep their model verdict.", N_WF, T_MUT, "DESIGN.md §4 C05"),
 "C06": ("exploration", "A well-formed base with one needed source removed or replaced by a near miss; wire must fail naming a missing type of the model's set and write nothing; alias controls must be accepted.", N_WF, T_MUT, "DESIGN.md §4 C06"),
 "C07": ("exploration", "Generated provider graphs (all labelled digraphs on 3 nodes, a sample (thorough: all 65536) on 4 nodes, rapid-drawn graphs of 4-40 nodes incl. bindings bound into cycles and cycles that exist only in the union of imported sets, path-explosion stress shapes) rendered as Wire programs and run through the CLI; a reference DFS decides cyclicity; termination is a calibrated time bound per invocation.", "Trusted: go toolchain, the renderer (checked by Go's type checker on every case), the reference cycle test. Termination on all inputs cannot be shown by testing; the bound is max(60 s, 20x calibration).", "property-based testing: exhaustive small-graph enumeration + rapid graph generator with shrinking, reference-model oracle, calibrated time bound", "DESIGN.md §4 C07"),
 "C08": ("exploration", "A well-formed base whose wire.Build gets one superfluous direct argument of each kind (incl. a second inline set and an item another injector uses); `unused ...` and nothing generated; the nested-use control stays accepted.", N_WF, T_MUT, "DESIGN.md §4 C08"),
 "C09": ("exploration", "Result-list shapes of length 0-4 over 10 atoms for providers and injectors, duplicated parameter/field types (incl. separately written composite types, aliases, variadic), and the injector needs matrix; verdict per the rule table in the reference model; accepted shapes are compiled and executed.", N_WF, T_MUT, "DESIGN.md §4 C09"),
 "C10": ("exploration", "Well-formed bases put through drawn meaning-preserving transformations (permutations of every argument list, wrap/flatten/inline regrouping, moving and aliasing sets, multi-name var specs); every variant must be accepted and its executed wiring must equal the order-independent reference model.", N_WF, "property-based testing: metamorphic transformations of generated programs, reference-model and runtime-trace oracle", "DESIGN.md §4 C10"),
 "C11": ("exploration", "Bases containing bindings with one binding edited (method dropped, pointer receivers, self binding, isolated from its concrete type, concrete unprovided, *T vs T, unbound, bound to a non-implementing interface); accept iff Go's method-set rule and co-location hold per the model; accepted programs are executed and consumers of I and C must share the instance.", N_WF, T_MUT, "DESIGN.md §4 C11"),
 "C12": ("exploration", "Dedicated struct/field generator (name subsets, \"*\", case twins, embedded, prevent-tag spellings, wrong/unknown/duplicate names, other package) for wire.Struct and wire.FieldsOf over value and pointer parents from four source kinds; accepted programs are executed: exactly the named fields set, others zero, selected fields equal the parent's, pointer-to-field has the address of the field inside the provided struct.", N_WF, T_MUT, "DESIGN.md §4 C12"),
 "C13": ("exploration", "Type-directed expression generator over two home packages with identical names and two same-named imported packages; specials (calls, receives, inaccessible identifiers, interface-typed values, non-implementing values) must be rejected; accepted values must equal the home-package evaluation and be identical across calls and injectors.", N_WF + " Known finding D20 (InterfaceValue accepts calls, pinned by a golden test) is excluded by construction and replayed.", "property-based testing: grammar/type-directed expression generator, differential oracle against home-package evaluation, identity across calls", "DESIGN.md §4 C13"),
 "C14": ("exploration", "Generated programs under an adversarial naming layer (packages, aliases, types, functions, sets, injectors, parameters, package-level err/cleanup/_wire*Value/local-like names); the renamed program must be accepted, compile and satisfy the name-independent wiring, failure and cleanup oracles, i.e. behave as its canonical twin.", N_WF, "property-based testing: metamorphic renaming of generated programs; compile + runtime-trace oracles through a name-independent reference model", "DESIGN.md §4 C14"),
}
reasons = {}
checks = []
for i in ids:
    if i in claimed:
        lv, text, note, tech, ref = claimed[i]
        checks.append({
            "property_id": i,
            "quick_cmd": "./check %s quick" % i,
            "thorough_cmd": "./check %s thorough" % i,
            "evidence_file": "/verif/evidence/%s.json" % i,
            "replay_cmd_template": "./check replay {path}",
            "engine": "vcheck",
            "level_claimed": {"category": lv, "text": text, "design_ref": ref},
            "level_note": note,
            "technique": tech,
        })
na = [{"property_id": i, "reason": reasons.get(i, "check not built yet in this session; the design (DESIGN.md §4) applies generated-input search to it")} for i in ids if i not in claimed]
m = {
 "version": 1,
 "setup_cmd": "./check setup",
 "hooks": {"guard": "verif", "enable": "none needed: all checks are black-box through cmd/wire built from /repo's working tree (go build ./cmd/wire)", "baseline_off_cmd": "cd /repo && go test -vet=off -count=1 ./...", "source_commits": [], "add_only": True},
 "engines": [{"name": "vcheck", "path": "/verif/harness", "serves_properties": sorted(claimed), "kind_free_text": "Go harness: rapid v1.3.0 generators + reference model + batch pipeline through the real wire CLI, go build and an instrumented runner"}],
 "checks": checks,
 "not_applicable": na,
 "notes": "Exit codes: 0 held, 1 VIOLATION, 2 INCONCLUSIVE (infrastructure). VERIF_SEED selects the rapid seeds; VERIF_REPO overrides the tree under test (used by selftest only).",
}
json.dump(m, open(os.path.join(V, "MANIFEST.json"), "w"), indent=1)
print("claimed:", sorted(claimed), "n/a:", len(na))
