#!/usr/bin/env python3
"""Regenerates /verif/MANIFEST.json from the table below (keeps it valid at all times)."""
import json, os, subprocess, sys
V = os.path.dirname(os.path.abspath(__file__))
props = [json.loads(l) for l in open(os.path.join(V, "properties.jsonl"))]
ids = [p["id"] for p in props]

# id -> (level, text, note, technique, design_ref)
claimed = {
 "C07": ("exploration",
         "Generated provider graphs (all labelled digraphs on 3 nodes, thorough also 4 nodes; rapid-drawn graphs of 4-40 nodes; path-explosion stress shapes) are rendered as Wire programs and run through the CLI built from /repo; a reference DFS decides cyclicity and is compared with exit status, the cycle diagnostic and the output file; termination is a calibrated time bound per invocation.",
         "Trusted: go toolchain, the renderer (checked by Go's own type checker on every case), the 12-line reference cycle test. Termination on all inputs cannot be shown by testing; the bound is max(60 s, 20x calibration).",
         "property-based testing: exhaustive small-graph enumeration + rapid graph generator with shrinking, reference-model oracle",
         "DESIGN.md §4 C07"),
}
reasons = {}
checks = []
for i in ids:
    if i in claimed:
        lv, text, note, tech, ref = claimed[i]
        checks.append({
            "property_id": i,
            "quick_cmd": "./check %s quick" % i,
            "thorough_cmd": "./check %s thorough" % i,
            "evidence_file": "/verif/evidence/%s.json" % i,
            "replay_cmd_template": "./check replay {path}",
            "engine": "vcheck",
            "level_claimed": {"category": lv, "text": text, "design_ref": ref},
            "level_note": note,
            "technique": tech,
        })
na = [{"property_id": i, "reason": reasons.get(i, "check not built yet in this session; the design (DESIGN.md §4) applies generated-input search to it")} for i in ids if i not in claimed]
m = {
 "version": 1,
 "setup_cmd": "./check setup",
 "hooks": {"guard": "verif", "enable": "none needed: all checks are black-box through cmd/wire built from /repo's working tree (go build ./cmd/wire)", "baseline_off_cmd": "cd /repo && go test -vet=off -count=1 ./...", "source_commits": [], "add_only": True},
 "engines": [{"name": "vcheck", "path": "/verif/harness", "serves_properties": sorted(claimed), "kind_free_text": "Go harness: rapid v1.3.0 generators + reference model + batch pipeline through the real wire CLI, go build and an instrumented runner"}],
 "checks": checks,
 "not_applicable": na,
 "notes": "Exit codes: 0 held, 1 VIOLATION, 2 INCONCLUSIVE (infrastructure). VERIF_SEED selects the rapid seeds; VERIF_REPO overrides the tree under test (used by selftest only).",
}
json.dump(m, open(os.path.join(V, "MANIFEST.json"), "w"), indent=1)
print("claimed:", sorted(claimed), "n/a:", len(na))
