// Command vcheck is the driver behind /verif/check.
package main

import (
	"fmt"
	"os"

	"verif/harness/eng"
	"verif/harness/props"
)

func usage() int {
	fmt.Fprintln(os.Stderr, "usage: vcheck <ID> <quick|thorough> | replay <file> | list | setup")
	return 2
}

func main() {
	a := os.Args[1:]
	if len(a) == 0 {
		os.Exit(usage())
	}
	switch a[0] {
	case "child":
		os.Exit(eng.ChildMain(a[1]))
	case "replay":
		if len(a) < 2 {
			os.Exit(usage())
		}
		os.Exit(eng.ReplayMain(a[1]))
	case "debugwf":
		var seed uint64 = 1
		n, show := 200, -1
		dir := ""
		if len(a) > 1 {
			fmt.Sscan(a[1], &seed)
		}
		if len(a) > 2 {
			fmt.Sscan(a[2], &n)
		}
		if len(a) > 3 {
			fmt.Sscan(a[3], &show)
		}
		if len(a) > 4 {
			dir = a[4]
		}
		props.DebugWF(seed, n, show, dir)
	case "debugcycles":
		var seed uint64 = 1
		n := 2000
		fmt.Sscan(a[2], &seed)
		props.DebugCycles(a[1], seed, n)
	case "render":
		props.DebugRender(a[1], a[2])
	case "list":
		for _, id := range eng.IDs() {
			fmt.Println(id)
		}
	case "setup":
		s, err := eng.NewSession()
		if err != nil {
			fmt.Println("setup failed:", err)
			os.Exit(2)
		}
		s.Close()
		fmt.Println("setup ok")
	default:
		tier := os.Getenv("VERIF_TIER")
		if len(a) > 1 {
			tier = a[1]
		}
		if tier != "thorough" {
			tier = "quick"
		}
		os.Exit(eng.RunProperty(a[0], tier, eng.SeedFromEnv()))
	}
}
