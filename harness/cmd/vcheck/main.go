// Command vcheck is the driver behind /verif/check.
package main

import (
	"fmt"
	"os"
	"os/exec"
	"strings"

	"verif/harness/eng"
	"verif/harness/props"
)

func usage() int {
	fmt.Fprintln(os.Stderr, "usage: vcheck <ID> <quick|thorough> | replay <file> | list | setup")
	return 2
}

func main() {
	a := os.Args[1:]
	if len(a) == 0 {
		os.Exit(usage())
	}
	switch a[0] {
	case "child":
		os.Exit(eng.ChildMain(a[1]))
	case "replay":
		if len(a) < 2 {
			os.Exit(usage())
		}
		os.Exit(eng.ReplayMain(a[1]))
	case "debugwf":
		var seed uint64 = 1
		n, show := 200, -1
		dir := ""
		if len(a) > 1 {
			fmt.Sscan(a[1], &seed)
		}
		if len(a) > 2 {
			fmt.Sscan(a[2], &n)
		}
		if len(a) > 3 {
			fmt.Sscan(a[3], &show)
		}
		if len(a) > 4 {
			dir = a[4]
		}
		props.DebugWF(seed, n, show, dir)
	case "debugcycles":
		var seed uint64 = 1
		n := 2000
		fmt.Sscan(a[2], &seed)
		props.DebugCycles(a[1], seed, n)
	case "witnesses":
		subj := map[string]string{
			"D1": "return the injector's chosen error variable", "D2": "universe identifiers", "D3": "dot-imported", "D4": "validate the first argument of wire.Struct",
			"D6": "nil struct type in the wire.FieldsOf", "D7": "zero value of unsafe.Pointer", "D8": "match struct field names exactly", "D9": "named function types",
			"D10": "copy type parameters", "D11": "multi-value var spec", "D12": "reject wire.InterfaceValue(new(I), nil)", "D13": "wire diff exits 2", "D14": "wire check reports the injector-level errors",
			"D16": "reject providers and fields the injector's package cannot refer to", "D19": "ProviderSet variable not built by wire.NewSet", "D17": "renames type-switch variables", "D21": "renames type-switch variables", "D22": "header-only wire_gen.go", "D23": "reported at their use, not at their declaration", "D24": "reported where the user refers to them", "D25": "report problems where the user writes them", "D26": "identifiers without an object no longer crash", "D27": "shadows a package-level provider or provider set", "D28": "blank struct fields are neither injected", "D29": "packages without non-test Go files are skipped", "D30": "ignore type declarations whose type is wire.ProviderSet", "D31": "a package named init is imported under another name", "D32": "marker variable in the user's set are reported at that set", "D33": "parenthesised forms of the wire.Build call", "D34": "-tags accepts a comma-separated list", "D35": "predeclared identifier that the injector's package redeclares",
		}
		commits := map[string]string{}
		for k, sub := range subj {
			out, _ := exec.Command("git", "-C", eng.RepoDir(), "log", "--format=%h", "--fixed-strings", "--grep", sub).Output()
			commits[k] = strings.TrimSpace(strings.Split(string(out), "\n")[0])
		}
		if err := props.WriteFindings(commits); err != nil {
			fmt.Println(err)
			os.Exit(2)
		}
		fmt.Println("known_findings.json written", commits)
	case "render":
		props.DebugRender(a[1], a[2])
	case "list":
		for _, id := range eng.IDs() {
			fmt.Println(id)
		}
	case "setup":
		s, err := eng.NewSession()
		if err != nil {
			fmt.Println("setup failed:", err)
			os.Exit(2)
		}
		s.Close()
		fmt.Println("setup ok")
	default:
		tier := os.Getenv("VERIF_TIER")
		if len(a) > 1 {
			tier = a[1]
		}
		if tier != "thorough" {
			tier = "quick"
		}
		os.Exit(eng.RunProperty(a[0], tier, eng.SeedFromEnv()))
	}
}
