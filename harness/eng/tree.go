package eng

import (
	"encoding/json"
	"fmt"
	"strings"
)

// Tree is the fingerprint of a runtime value produced by the runner.
type Tree struct {
	K   string   `json:"k"`
	T   string   `json:"t,omitempty"`
	V   string   `json:"v,omitempty"`
	FN  []string `json:"fn,omitempty"`
	F   []*Tree  `json:"f,omitempty"`
	E   []*Tree  `json:"e,omitempty"`
	MK  []*Tree  `json:"mk,omitempty"`
	ID  int      `json:"id,omitempty"`
	FA  []int    `json:"fa,omitempty"` // ids of the fields' addresses (addressable structs only)
	To  *Tree    `json:"to,omitempty"`
	Nil bool     `json:"nil,omitempty"`
	Cap int      `json:"cap,omitempty"` // capacity of a non-nil slice
}

// String renders the tree compactly.
func (t *Tree) String() string {
	if t == nil {
		return "<none>"
	}
	b, _ := json.Marshal(t)
	return string(b)
}

// Equal compares two trees; with loose set, identity ids are ignored.
func (t *Tree) Equal(o *Tree, loose bool) bool {
	if t == nil || o == nil {
		return t == o
	}
	if t.K == "iface" && o.K == "iface" && t.Nil && o.Nil {
		return true // a nil interface has lost its static type when boxed
	}
	if t.K != o.K || t.T != o.T || t.V != o.V || t.Nil != o.Nil || t.Cap != o.Cap {
		return false
	}
	if !loose && t.ID != o.ID {
		return false
	}
	if len(t.F) != len(o.F) || len(t.E) != len(o.E) || len(t.MK) != len(o.MK) {
		return false
	}
	for i := range t.F {
		if t.FN[i] != o.FN[i] || !t.F[i].Equal(o.F[i], loose) {
			return false
		}
	}
	for i := range t.E {
		if !t.E[i].Equal(o.E[i], loose) {
			return false
		}
	}
	for i := range t.MK {
		if !t.MK[i].Equal(o.MK[i], loose) {
			return false
		}
	}
	if (t.To == nil) != (o.To == nil) {
		return false
	}
	// the result of calling a function value is built afresh by every
	// fingerprint: only its structure is comparable
	if t.To != nil && !t.To.Equal(o.To, loose || t.K == "func") {
		return false
	}
	return true
}

// IsZero reports whether the tree is the zero value of its type.
func (t *Tree) IsZero() bool {
	if t == nil {
		return true
	}
	switch t.K {
	case "bool":
		return t.V == "false"
	case "int", "uint", "float":
		return t.V == "0"
	case "complex":
		return t.V == "(0+0i)"
	case "string":
		return t.V == ""
	case "struct":
		for _, f := range t.F {
			if !f.IsZero() {
				return false
			}
		}
		return true
	case "array":
		for _, e := range t.E {
			if !e.IsZero() {
				return false
			}
		}
		return true
	default:
		return t.Nil
	}
}

// Deref strips interface boxes and one pointer level.
func (t *Tree) Deref() *Tree {
	for t != nil && t.K == "iface" && t.To != nil {
		t = t.To
	}
	if t != nil && t.K == "ptr" && t.To != nil {
		return t.To
	}
	return t
}

// Unbox strips interface boxes.
func (t *Tree) Unbox() *Tree {
	for t != nil && t.K == "iface" && t.To != nil {
		t = t.To
	}
	return t
}

// Field returns the named field of a struct tree (nil if absent).
func (t *Tree) Field(name string) *Tree {
	if t == nil || t.K != "struct" {
		return nil
	}
	for i, n := range t.FN {
		if n == name {
			return t.F[i]
		}
	}
	return nil
}

// Pat is an expected-value pattern evaluated against observed trees.
type Pat struct {
	// Kind: exact (Tree, identity included), loose (Tree, ids ignored), struct
	// (Fields, the rest zero; Ptr: a fresh pointer to it), addr (pointer to
	// something matching Sub), zero, any
	Kind   string
	Tree   *Tree
	Ptr    bool
	Fields map[string]*Pat
	Sub    *Pat
}

// Match checks an observed tree against the pattern.
func (p *Pat) Match(got *Tree) (bool, string) {
	got = got.Unbox()
	switch p.Kind {
	case "any":
		return true, ""
	case "exact":
		if p.Tree.Unbox().Equal(got, false) {
			return true, ""
		}
		return false, fmt.Sprintf("want exactly %s, got %s", p.Tree.Unbox(), got)
	case "loose":
		if p.Tree.Unbox().Equal(got, true) {
			return true, ""
		}
		return false, fmt.Sprintf("want (modulo identity) %s, got %s", p.Tree.Unbox(), got)
	case "zero":
		if got.IsZero() {
			return true, ""
		}
		return false, fmt.Sprintf("want zero value, got %s", got)
	case "addr":
		if got == nil || got.K != "ptr" || got.To == nil {
			return false, fmt.Sprintf("want non-nil pointer, got %s", got)
		}
		return p.Sub.Match(got.To)
	case "struct":
		st := got
		if p.Ptr {
			if got == nil || got.K != "ptr" || got.To == nil {
				return false, fmt.Sprintf("want pointer to struct, got %s", got)
			}
			st = got.To
		}
		if st == nil || st.K != "struct" {
			return false, fmt.Sprintf("want struct, got %s", got)
		}
		for i, n := range st.FN {
			if fp, ok := p.Fields[n]; ok {
				if ok, why := fp.Match(st.F[i]); !ok {
					return false, "field " + n + ": " + why
				}
			} else if !st.F[i].IsZero() {
				return false, fmt.Sprintf("field %s must keep its zero value, got %s", n, st.F[i])
			}
		}
		for n := range p.Fields {
			if st.Field(n) == nil {
				return false, "struct has no field " + n
			}
		}
		return true, ""
	}
	return false, "bad pattern " + p.Kind
}

// FieldPat derives the pattern of field name of something matching p.
func (p *Pat) FieldPat(name string) *Pat {
	switch p.Kind {
	case "exact", "loose":
		sub := p.Tree.Deref().Field(name)
		if sub == nil {
			return &Pat{Kind: "zero"}
		}
		return &Pat{Kind: p.Kind, Tree: sub}
	case "struct":
		if fp, ok := p.Fields[name]; ok {
			return fp
		}
		return &Pat{Kind: "zero"}
	case "addr":
		return p.Sub.FieldPat(name)
	}
	return &Pat{Kind: "any"}
}

// Event is a runtime event reported by the runner.
type Event struct {
	Kind string  `json:"kind"`
	ID   string  `json:"id,omitempty"`
	Vals []*Tree `json:"vals,omitempty"`
	B1   bool    `json:"b1,omitempty"`
	B2   bool    `json:"b2,omitempty"`
	B3   bool    `json:"b3,omitempty"`
	N    int     `json:"n,omitempty"`
}

// Section is one injector call made by the driver.
type Section struct {
	Label    string  `json:"label"`
	Injector string  `json:"injector"`
	Fault    string  `json:"fault,omitempty"`
	Panic    string  `json:"panic,omitempty"`
	Events   []Event `json:"events"`
}

// ProgRun is the runner's report about one program.
type ProgRun struct {
	Name     string    `json:"name"`
	Panic    string    `json:"panic,omitempty"`
	Sections []Section `json:"sections"`
}

// Summary renders the event kinds/ids of a section (for messages).
func (s *Section) Summary() string {
	var parts []string
	for _, e := range s.Events {
		parts = append(parts, e.Kind+":"+e.ID)
	}
	return strings.Join(parts, " ")
}
