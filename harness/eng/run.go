// Package eng is the shared engine of the Wire property checks: subprocess
// plumbing, workspaces, result accounting, the program model and renderer.
package eng

import (
	"bytes"
	"context"
	"crypto/sha256"
	"encoding/hex"
	"fmt"
	"io/fs"
	"os"
	"os/exec"
	"path/filepath"
	"regexp"
	"sort"
	"strings"
	"syscall"
	"time"
)

// VerifDir is the directory holding the verification machinery.
func VerifDir() string {
	if d := os.Getenv("VERIF_DIR"); d != "" {
		return d
	}
	return "/verif"
}

// OutDir is where evidence/ and replays/ are written (VERIF_OUT overrides it
// so that sensitivity runs against scratch trees do not clobber real results).
func OutDir() string {
	if d := os.Getenv("VERIF_OUT"); d != "" {
		return d
	}
	return VerifDir()
}

// RepoDir is the google/wire tree under test.
func RepoDir() string {
	if d := os.Getenv("VERIF_REPO"); d != "" {
		return d
	}
	return "/repo"
}

// CmdResult is the outcome of one subprocess.
type CmdResult struct {
	Stdout, Stderr string
	Exit           int
	TimedOut       bool
	Dur            time.Duration
	Err            error // start failure
}

// Env describes how subprocesses are run.
type Env struct {
	WireBin string
	GoCache string
	Extra   []string // extra KEY=VAL
	MemKB   int      // address-space limit for subprocesses (0 = none)
}

func (e *Env) environ(extra []string) []string {
	env := []string{
		"PATH=" + os.Getenv("PATH"),
		"HOME=" + os.Getenv("HOME"),
		"GOCACHE=" + e.GoCache,
		"GOPROXY=off", "GOSUMDB=off", "GOTOOLCHAIN=local", "GOFLAGS=",
		"GONOSUMDB=*", "GONOSUMCHECK=1", "GOWORK=off",
		"LANG=C",
	}
	if t := os.Getenv("TMPDIR"); t != "" {
		env = append(env, "TMPDIR="+t)
	}
	env = append(env, e.Extra...)
	env = append(env, extra...)
	return env
}

// Run executes a command in dir under a timeout, killing the whole process
// group when the timeout fires.
func (e *Env) Run(dir string, timeout time.Duration, extraEnv []string, name string, args ...string) CmdResult {
	ctx, cancel := context.WithTimeout(context.Background(), timeout)
	defer cancel()
	var cmd *exec.Cmd
	if e.MemKB > 0 {
		// cap the address space so that a runaway analysis cannot exhaust the machine
		sh := fmt.Sprintf("ulimit -v %d; exec \"$0\" \"$@\"", e.MemKB)
		cmd = exec.Command("/bin/sh", append([]string{"-c", sh, name}, args...)...)
	} else {
		cmd = exec.Command(name, args...)
	}
	cmd.Dir = dir
	cmd.Env = e.environ(extraEnv)
	cmd.SysProcAttr = &syscall.SysProcAttr{Setpgid: true}
	var so, se bytes.Buffer
	cmd.Stdout, cmd.Stderr = &so, &se
	start := time.Now()
	if err := cmd.Start(); err != nil {
		return CmdResult{Exit: -1, Err: err}
	}
	done := make(chan error, 1)
	go func() { done <- cmd.Wait() }()
	var res CmdResult
	select {
	case err := <-done:
		if err != nil {
			if ee, ok := err.(*exec.ExitError); ok {
				res.Exit = ee.ExitCode()
			} else {
				res.Exit = -1
				res.Err = err
			}
		}
	case <-ctx.Done():
		syscall.Kill(-cmd.Process.Pid, syscall.SIGKILL)
		<-done
		res.TimedOut = true
		res.Exit = -1
	}
	res.Dur = time.Since(start)
	res.Stdout, res.Stderr = so.String(), se.String()
	return res
}

// Wire runs the wire binary.
func (e *Env) Wire(dir string, timeout time.Duration, extraEnv []string, args ...string) CmdResult {
	return e.Run(dir, timeout, extraEnv, e.WireBin, args...)
}

// Go runs the go tool.
func (e *Env) Go(dir string, timeout time.Duration, extraEnv []string, args ...string) CmdResult {
	return e.Run(dir, timeout, extraEnv, "go", args...)
}

// BuildWire compiles cmd/wire from the repository's current working tree.
func BuildWire(e *Env, out string) error {
	r := e.Run(RepoDir(), 10*time.Minute, nil, "go", "build", "-o", out, "./cmd/wire")
	if r.Exit != 0 || r.TimedOut {
		return fmt.Errorf("building cmd/wire failed (exit %d): %s", r.Exit, r.Stderr)
	}
	return nil
}

// WriteTree writes files (relative path -> content) below root.
func WriteTree(root string, files map[string]string) error {
	names := make([]string, 0, len(files))
	for n := range files {
		names = append(names, n)
	}
	sort.Strings(names)
	made := map[string]bool{}
	for _, n := range names {
		p := filepath.Join(root, n)
		d := filepath.Dir(p)
		if !made[d] {
			if err := os.MkdirAll(d, 0o777); err != nil {
				return err
			}
			made[d] = true
		}
		if err := os.WriteFile(p, []byte(files[n]), 0o666); err != nil {
			return err
		}
	}
	return nil
}

// Snapshot maps every regular file below root (relative path) to the sha256
// of its content; directories are recorded with the value "dir".
func Snapshot(root string) (map[string]string, error) {
	out := map[string]string{}
	err := filepath.WalkDir(root, func(p string, d fs.DirEntry, err error) error {
		if err != nil {
			return err
		}
		rel, _ := filepath.Rel(root, p)
		if rel == "." {
			return nil
		}
		if d.IsDir() {
			out[rel] = "dir"
			return nil
		}
		b, err := os.ReadFile(p)
		if err != nil {
			return err
		}
		h := sha256.Sum256(b)
		out[rel] = hex.EncodeToString(h[:])
		return nil
	})
	return out, err
}

// DiffSnap lists the paths that differ between two snapshots (sorted), each
// prefixed with "+", "-" or "~".
func DiffSnap(a, b map[string]string) []string {
	var out []string
	for k, v := range a {
		if w, ok := b[k]; !ok {
			out = append(out, "-"+k)
		} else if v != w {
			out = append(out, "~"+k)
		}
	}
	for k := range b {
		if _, ok := a[k]; !ok {
			out = append(out, "+"+k)
		}
	}
	sort.Strings(out)
	return out
}

// PkgResult is what `wire gen`/`wire diff` said about one package.
type PkgResult struct {
	Pkg    string
	Failed bool
	Wrote  string
	Diags  []string // diagnostic blocks (multi-line diagnostics joined by "\n")
}

// GenOutput is the parsed stderr of a `wire gen` invocation.
type GenOutput struct {
	Pkgs     map[string]*PkgResult
	Order    []string
	Loose    []string // diagnostics not attributed to a package (load errors)
	Panicked bool
	Trailer  string // "generate failed" / "at least one generate failure" / ""
}

var (
	reFailed = regexp.MustCompile(`^wire: (\S+): generate failed$`)
	reWrote  = regexp.MustCompile(`^wire: (\S+): wrote (.+)$`)
	rePosn   = regexp.MustCompile(`(^|[\s(])(/[^\s:()]+\.go):(\d+):(\d+)`)
)

// ParseGenStderr splits the stderr of gen/diff into per-package groups.
func ParseGenStderr(stderr string) *GenOutput {
	g := &GenOutput{Pkgs: map[string]*PkgResult{}}
	if strings.Contains(stderr, "panic:") && strings.Contains(stderr, "goroutine ") {
		g.Panicked = true
	}
	var cur []string
	get := func(p string) *PkgResult {
		if r, ok := g.Pkgs[p]; ok {
			return r
		}
		r := &PkgResult{Pkg: p}
		g.Pkgs[p] = r
		g.Order = append(g.Order, p)
		return r
	}
	for _, line := range strings.Split(stderr, "\n") {
		if line == "" || strings.HasPrefix(line, "Warning:") {
			continue
		}
		if m := reFailed.FindStringSubmatch(line); m != nil {
			r := get(m[1])
			r.Failed = true
			r.Diags = append(r.Diags, cur...)
			cur = nil
			continue
		}
		if m := reWrote.FindStringSubmatch(line); m != nil {
			r := get(m[1])
			r.Wrote = m[2]
			r.Diags = append(r.Diags, cur...)
			cur = nil
			continue
		}
		if line == "wire: generate failed" || line == "wire: at least one generate failure" || line == "wire: error loading packages" {
			g.Trailer = strings.TrimPrefix(line, "wire: ")
			continue
		}
		if strings.HasPrefix(line, "\t") && len(cur) > 0 {
			cur[len(cur)-1] += "\n" + line
			continue
		}
		cur = append(cur, line)
	}
	g.Loose = cur
	return g
}

// HasPosition reports whether the diagnostic text carries a file:line:col
// position whose file lies under root.
func HasPosition(diag, root string) bool {
	for _, m := range rePosn.FindAllStringSubmatch(diag, -1) {
		if strings.HasPrefix(m[2], root+"/") {
			return true
		}
	}
	return false
}

// FileExists reports whether path names an existing file.
func FileExists(p string) bool {
	st, err := os.Stat(p)
	return err == nil && !st.IsDir()
}

// HashString is a short stable hash of s.
func HashString(s string) string {
	h := sha256.Sum256([]byte(s))
	return hex.EncodeToString(h[:8])
}
