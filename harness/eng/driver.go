package eng

import (
	"encoding/json"
	"fmt"
	"hash/fnv"
	"os"
	"os/exec"
	"os/signal"
	"path/filepath"
	"sort"
	"strconv"
	"strings"
	"sync"
	"syscall"
	"time"
)

// Property describes one registered check.
type Property struct {
	ID          string
	Level       string // exploration | fault_enumeration
	Rule        string
	Assumptions []string
	// Shards returns the number of independent shards for a tier.
	Shards func(tier string) int
	// Run explores the property inside one shard.
	Run func(c *Ctx)
	// ReplayCase re-evaluates a saved case against the current tree and
	// returns the oracle's verdict (nil = property holds on this case).
	ReplayCase func(c *Ctx, kind string, raw json.RawMessage) *Fail
	// Timeout bounds one shard.
	Timeout func(tier string) time.Duration
}

// Floor is the least number of distinct non-trivial cases a run of the
// property's check must have judged for "no violation" to mean anything: a
// run below it (e.g. because generated code took the evaluation pipeline
// down) is inconclusive, not a pass.  The floors are about 40% of what the
// quick tier reaches on the unchanged tree, where the counts vary by a few
// percent between seeds.
var Floor = map[string]int{
	"C01": 800, "C02": 800, "C03": 850, "C04": 850, "C05": 900, "C06": 1150, "C07": 750, "C08": 1200, "C09": 800, "C10": 600,
	"C11": 1000, "C12": 1250, "C13": 950, "C14": 950, "C15": 600, "C16": 35, "C17": 120, "C18": 85, "C19": 400, "C20": 270,
}

var registry = map[string]*Property{}

// Register adds a property to the registry.
func Register(p *Property) { registry[p.ID] = p }

// Lookup finds a registered property.
func Lookup(id string) *Property { return registry[id] }

// IDs lists the registered property ids.
func IDs() []string {
	var ids []string
	for id := range registry {
		ids = append(ids, id)
	}
	sort.Strings(ids)
	return ids
}

// Finding is one entry of known_findings.json.
type Finding struct {
	ID        string          `json:"id"`
	Property  string          `json:"property"`
	Status    string          `json:"status"` // known | fixed
	Commit    string          `json:"commit,omitempty"`
	WhatFails string          `json:"what_fails"`
	Line      string          `json:"line"`
	Kind      string          `json:"kind"`
	Witness   json.RawMessage `json:"witness"`
}

// LoadFindings reads /verif/known_findings.json.
func LoadFindings() ([]Finding, error) {
	b, err := os.ReadFile(filepath.Join(VerifDir(), "known_findings.json"))
	if err != nil {
		if os.IsNotExist(err) {
			return nil, nil
		}
		return nil, err
	}
	var f struct {
		Findings []Finding `json:"findings"`
	}
	if err := json.Unmarshal(b, &f); err != nil {
		return nil, err
	}
	return f.Findings, nil
}

func seedFor(seed uint64, prop string, shard int) uint64 {
	h := fnv.New64a()
	fmt.Fprintf(h, "%d/%s/%d", seed, prop, shard)
	s := h.Sum64()
	if s == 0 {
		s = 1
	}
	return s
}

// baseCache makes sure the shared compiled-package cache exists and returns
// a private hard-linked copy of it below runDir.
func baseCache(runDir string) (string, error) {
	base := filepath.Join(VerifDir(), ".cache", "gobase")
	lock := filepath.Join(VerifDir(), ".cache", "gobase.lock")
	os.MkdirAll(filepath.Dir(base), 0o777)
	lf, err := os.OpenFile(lock, os.O_CREATE|os.O_RDWR, 0o666)
	if err != nil {
		return "", err
	}
	defer lf.Close()
	if err := syscall.Flock(int(lf.Fd()), syscall.LOCK_EX); err != nil {
		return "", err
	}
	defer syscall.Flock(int(lf.Fd()), syscall.LOCK_UN)
	marker := filepath.Join(base, "READY")
	if !FileExists(marker) {
		os.RemoveAll(base)
		os.MkdirAll(base, 0o777)
		e := &Env{GoCache: base}
		tmp, err := os.MkdirTemp("", "verif-warm-")
		if err != nil {
			return "", err
		}
		defer os.RemoveAll(tmp)
		if err := BuildWire(e, filepath.Join(tmp, "wire")); err != nil {
			return "", err
		}
		WriteTree(tmp, map[string]string{
			"go.mod":  "module warm\n\ngo 1.21\n",
			"main.go": "package main\n\nimport (\n\t\"encoding/json\"\n\t\"fmt\"\n\t\"os\"\n\t\"reflect\"\n\t\"sort\"\n\t\"strconv\"\n\t\"strings\"\n\t\"unsafe\"\n\t\"errors\"\n\t\"context\"\n\t\"io\"\n\t\"bytes\"\n\t\"time\"\n\t\"net/http\"\n)\n\nvar _ = json.Marshal\nvar _ = reflect.TypeOf\nvar _ = sort.Strings\nvar _ = strconv.Itoa\nvar _ = strings.Join\nvar _ unsafe.Pointer\nvar _ = errors.New\nvar _ context.Context\nvar _ io.Reader\nvar _ bytes.Buffer\nvar _ time.Time\nvar _ http.Handler\n\nfunc main() { fmt.Fprintln(os.Stderr) }\n",
		})
		if r := e.Go(tmp, 10*time.Minute, nil, "build", "-o", filepath.Join(tmp, "warm"), "."); r.Exit != 0 {
			return "", fmt.Errorf("warming cache failed: %s", r.Stderr)
		}
		os.WriteFile(marker, []byte("ok\n"), 0o666)
	}
	priv := filepath.Join(runDir, "gocache")
	if out, err := exec.Command("cp", "-al", base, priv).CombinedOutput(); err != nil {
		return "", fmt.Errorf("cp -al: %v: %s", err, out)
	}
	return priv, nil
}

// Session is a prepared run directory with a built wire binary.
type Session struct {
	Dir string
	Env *Env
}

// NewSession creates the scratch directory, the private cache and builds
// cmd/wire from the repository's current working tree.
func NewSession() (*Session, error) {
	dir, err := os.MkdirTemp("", "verif-run-")
	if err != nil {
		return nil, err
	}
	s := &Session{Dir: dir}
	ch := make(chan os.Signal, 1)
	signal.Notify(ch, syscall.SIGINT, syscall.SIGTERM)
	go func() {
		<-ch
		os.RemoveAll(dir)
		os.Exit(2)
	}()
	gc, err := baseCache(dir)
	if err != nil {
		s.Close()
		return nil, err
	}
	s.Env = &Env{GoCache: gc, WireBin: filepath.Join(dir, "wire"), MemKB: 4 << 20}
	if err := BuildWire(s.Env, s.Env.WireBin); err != nil {
		s.Close()
		return nil, err
	}
	return s, nil
}

// Close removes the scratch directory (kept when VERIF_KEEP is set, for debugging).
func (s *Session) Close() {
	if os.Getenv("VERIF_KEEP") != "" {
		fmt.Fprintln(os.Stderr, "VERIF_KEEP: scratch directory kept at", s.Dir)
		return
	}
	os.RemoveAll(s.Dir)
}

type childCfg struct {
	Prop    string `json:"prop"`
	Tier    string `json:"tier"`
	Seed    uint64 `json:"seed"`
	Shard   int    `json:"shard"`
	NShards int    `json:"nshards"`
	Dir     string `json:"dir"`
	Wire    string `json:"wire"`
	GoCache string `json:"gocache"`
}

// ChildMain runs one shard; invoked as `vcheck child <cfg.json>`.
func ChildMain(cfgPath string) int {
	b, err := os.ReadFile(cfgPath)
	if err != nil {
		fmt.Fprintln(os.Stderr, err)
		return 2
	}
	var cfg childCfg
	if err := json.Unmarshal(b, &cfg); err != nil {
		fmt.Fprintln(os.Stderr, err)
		return 2
	}
	p := Lookup(cfg.Prop)
	if p == nil {
		fmt.Fprintln(os.Stderr, "unknown property", cfg.Prop)
		return 2
	}
	c := &Ctx{Prop: cfg.Prop, Tier: cfg.Tier, Seed: cfg.Seed, Shard: cfg.Shard, NShards: cfg.NShards,
		Env: &Env{WireBin: cfg.Wire, GoCache: cfg.GoCache, MemKB: 4 << 20}, Dir: cfg.Dir, Res: newShardResult()}
	func() {
		defer func() {
			if r := recover(); r != nil {
				c.Inconclusive(fmt.Sprintf("harness panic: %v", r))
			}
		}()
		p.Run(c)
	}()
	out, _ := json.Marshal(c.Res)
	if err := os.WriteFile(filepath.Join(cfg.Dir, "result.json"), out, 0o666); err != nil {
		fmt.Fprintln(os.Stderr, err)
		return 2
	}
	return 0
}

// Evidence mirrors EVIDENCE.schema.json.
type Evidence struct {
	PropertyID  string                 `json:"property_id"`
	Tier        string                 `json:"tier"`
	Seed        int64                  `json:"seed"`
	Level       string                 `json:"level"`
	Coverage    map[string]interface{} `json:"coverage"`
	Assumptions []string               `json:"assumptions"`
	WallS       float64                `json:"wall_s"`
	Violations  int                    `json:"violations"`
}

// RunProperty is the parent side of `./check <ID> <tier>`.
func RunProperty(id, tier string, seed uint64) int {
	p := Lookup(id)
	if p == nil {
		fmt.Printf("INCONCLUSIVE property=%s unknown property\n", id)
		return 2
	}
	start := time.Now()
	s, err := NewSession()
	if err != nil {
		fmt.Printf("INCONCLUSIVE property=%s setup: %v\n", id, err)
		return 2
	}
	defer s.Close()

	total := newShardResult()
	// Listed findings first: known ones are announced, fixed ones are
	// ordinary regression cases.
	findings, err := LoadFindings()
	if err != nil {
		fmt.Printf("INCONCLUSIVE property=%s known_findings.json: %v\n", id, err)
		return 2
	}
	fdir := filepath.Join(s.Dir, "findings")
	os.MkdirAll(fdir, 0o777)
	fc := &Ctx{Prop: id, Tier: tier, Seed: seedFor(seed, id, 999), Env: s.Env, Dir: fdir, Res: total}
	for _, f := range findings {
		if f.Property != id || p.ReplayCase == nil || len(f.Witness) == 0 {
			continue
		}
		var fail *Fail
		func() {
			defer func() {
				if r := recover(); r != nil {
					fail = nil
					total.Inconclusive = append(total.Inconclusive, fmt.Sprintf("finding %s replay panicked: %v", f.ID, r))
				}
			}()
			fc.Replay = f.Status == "known"
			fail = p.ReplayCase(fc, f.Kind, f.Witness)
			fc.Replay = false
		}()
		switch f.Status {
		case "known":
			if fail != nil {
				total.Known = append(total.Known, fmt.Sprintf("KNOWN-FINDING: property=%s %s [%s]", id, f.WhatFails, f.ID))
			} else {
				total.Notes["finding-"+f.ID] = "listed as known but no longer reproduces"
			}
		case "fixed":
			if fail != nil {
				fc.Violation("regression-of-"+f.ID+":"+fail.Kind, fail.Msg, json.RawMessage(f.Witness))
			}
			total.Evaluations++
		}
	}

	n := p.Shards(tier)
	if n < 1 {
		n = 1
	}
	to := 30 * time.Minute
	if p.Timeout != nil {
		to = p.Timeout(tier)
	}
	self, _ := os.Executable()
	results := make([]*ShardResult, n)
	var wg sync.WaitGroup
	sem := make(chan struct{}, 16)
	var mu sync.Mutex
	for i := 0; i < n; i++ {
		wg.Add(1)
		go func(i int) {
			defer wg.Done()
			sem <- struct{}{}
			defer func() { <-sem }()
			dir := filepath.Join(s.Dir, fmt.Sprintf("shard%02d", i))
			os.MkdirAll(dir, 0o777)
			cfg := childCfg{Prop: id, Tier: tier, Seed: seedFor(seed, id, i), Shard: i, NShards: n, Dir: dir, Wire: s.Env.WireBin, GoCache: s.Env.GoCache}
			b, _ := json.Marshal(cfg)
			cp := filepath.Join(dir, "cfg.json")
			os.WriteFile(cp, b, 0o666)
			e := &Env{GoCache: s.Env.GoCache, WireBin: s.Env.WireBin}
			r := e.Run(dir, to, []string{"VERIF_DIR=" + VerifDir(), "VERIF_REPO=" + RepoDir(), "VERIF_OUT=" + OutDir(), "VERIF_KEEP=" + os.Getenv("VERIF_KEEP")}, self, "child", cp)
			res := newShardResult()
			rb, err := os.ReadFile(filepath.Join(dir, "result.json"))
			switch {
			case r.TimedOut:
				res.Inconclusive = append(res.Inconclusive, fmt.Sprintf("shard %d timed out after %v", i, to))
			case err != nil:
				res.Inconclusive = append(res.Inconclusive, fmt.Sprintf("shard %d died (exit %d): %s", i, r.Exit, tail(r.Stderr, 1500)))
			default:
				if err := json.Unmarshal(rb, res); err != nil {
					res.Inconclusive = append(res.Inconclusive, fmt.Sprintf("shard %d result unreadable: %v", i, err))
				}
			}
			mu.Lock()
			results[i] = res
			mu.Unlock()
			if os.Getenv("VERIF_KEEP") == "" {
				os.RemoveAll(dir)
			}
		}(i)
	}
	wg.Wait()
	exhaustive := n > 0
	for _, r := range results {
		total.Evaluations += r.Evaluations
		for k := range r.Nontrivial {
			total.Nontrivial[k] = true
		}
		for k, v := range r.Classes {
			total.Classes[k] += v
		}
		for k, v := range r.Excluded {
			total.Excluded[k] += v
		}
		for k, v := range r.Notes {
			// numeric notes (counters) add up over the shards
			a, errA := strconv.Atoi(total.Notes[k])
			b, errB := strconv.Atoi(v)
			if errA == nil && errB == nil {
				total.Notes[k] = strconv.Itoa(a + b)
			} else {
				total.Notes[k] = v
			}
		}
		for _, sm := range r.Samples {
			if len(total.Samples) < 5 {
				total.Samples = append(total.Samples, sm)
			}
		}
		total.GenBugs = append(total.GenBugs, r.GenBugs...)
		total.Violations = append(total.Violations, r.Violations...)
		total.Known = append(total.Known, r.Known...)
		total.Inconclusive = append(total.Inconclusive, r.Inconclusive...)
		if !r.Exhaustive {
			exhaustive = false
		}
	}
	wall := time.Since(start).Seconds()

	cov := map[string]interface{}{
		"evaluations":         total.Evaluations,
		"distinct_nontrivial": len(total.Nontrivial),
		"rule":                p.Rule,
		"samples":             total.Samples,
		"classes":             total.Classes,
		"excluded":            total.Excluded,
		"generator_bugs":      len(total.GenBugs),
		"shards":              n,
		"exhaustive":          exhaustive,
	}
	if len(total.GenBugs) > 0 {
		gb := total.GenBugs
		if len(gb) > 5 {
			gb = gb[:5]
		}
		cov["generator_bug_notes"] = gb
	}
	if len(total.Notes) > 0 {
		cov["notes"] = total.Notes
	}
	if len(total.Known) > 0 {
		cov["known_findings"] = total.Known
	}
	if fl := Floor[id]; len(total.Violations) == 0 && len(total.Nontrivial) < fl {
		total.Inconclusive = append(total.Inconclusive, fmt.Sprintf("only %d distinct non-trivial cases were judged (floor %d): the run evaluated too little to count as a pass", len(total.Nontrivial), fl))
	}
	if len(total.Inconclusive) > 0 {
		cov["inconclusive"] = total.Inconclusive
	}
	if total.Samples == nil {
		cov["samples"] = []interface{}{}
	}
	ev := Evidence{PropertyID: id, Tier: tier, Seed: int64(seed & 0x7fffffffffffffff), Level: p.Level, Coverage: cov,
		Assumptions: p.Assumptions, WallS: wall, Violations: len(total.Violations)}
	eb, _ := json.MarshalIndent(ev, "", " ")
	edir := filepath.Join(OutDir(), "evidence")
	os.MkdirAll(edir, 0o777)
	if err := os.WriteFile(filepath.Join(edir, id+".json"), append(eb, '\n'), 0o666); err != nil {
		fmt.Printf("INCONCLUSIVE property=%s cannot write evidence: %v\n", id, err)
		return 2
	}

	for _, k := range dedup(total.Known) {
		fmt.Println(k)
	}
	seenV := map[string]bool{}
	for _, v := range total.Violations {
		if seenV[v.Replay] {
			continue
		}
		seenV[v.Replay] = true
		fmt.Printf("VIOLATION property=%s replay=%s\n", id, v.Replay)
		fmt.Printf("  kind: %s\n  %s\n", v.Kind, strings.ReplaceAll(tail(v.Msg, 3000), "\n", "\n  "))
	}
	code := 0
	if len(total.Violations) > 0 {
		code = 1
	} else if len(total.Inconclusive) > 0 {
		for _, m := range total.Inconclusive {
			fmt.Printf("INCONCLUSIVE property=%s %s\n", id, strings.ReplaceAll(tail(m, 3000), "\n", "\n  "))
		}
		code = 2
	} else if len(total.GenBugs)*50 > total.Evaluations+50 {
		fmt.Printf("INCONCLUSIVE property=%s %d generator bugs in %d evaluations, e.g. %s\n", id, len(total.GenBugs), total.Evaluations, tail(total.GenBugs[0], 1500))
		code = 2
	}
	fmt.Printf("%s property=%s tier=%s seed=%d evaluations=%d distinct_nontrivial=%d genbugs=%d wall=%.1fs\n",
		map[int]string{0: "OK", 1: "FAILED", 2: "INCONCLUSIVE"}[code], id, tier, seed, total.Evaluations, len(total.Nontrivial), len(total.GenBugs), wall)
	return code
}

func dedup(in []string) []string {
	seen := map[string]bool{}
	var out []string
	for _, s := range in {
		if !seen[s] {
			seen[s] = true
			out = append(out, s)
		}
	}
	return out
}

// ReplayMain re-evaluates a replay file: exit 1 + VIOLATION line if the case
// still violates the property.
func ReplayMain(path string) int {
	b, err := os.ReadFile(path)
	if err != nil {
		fmt.Println("INCONCLUSIVE", err)
		return 2
	}
	var rf ReplayFile
	if err := json.Unmarshal(b, &rf); err != nil {
		fmt.Println("INCONCLUSIVE", err)
		return 2
	}
	p := Lookup(rf.Property)
	if p == nil || p.ReplayCase == nil {
		fmt.Println("INCONCLUSIVE no replay support for", rf.Property)
		return 2
	}
	s, err := NewSession()
	if err != nil {
		fmt.Println("INCONCLUSIVE setup:", err)
		return 2
	}
	defer s.Close()
	c := &Ctx{Prop: rf.Property, Tier: "quick", Seed: 1, Env: s.Env, Dir: s.Dir, Res: newShardResult(), Replay: true}
	f := p.ReplayCase(c, rf.Kind, rf.Case)
	if len(c.Res.Inconclusive) > 0 {
		fmt.Println("INCONCLUSIVE", strings.Join(c.Res.Inconclusive, "; "))
		return 2
	}
	if f != nil {
		fmt.Printf("VIOLATION property=%s replay=%s\n  kind: %s\n  %s\n", rf.Property, path, f.Kind, strings.ReplaceAll(f.Msg, "\n", "\n  "))
		return 1
	}
	fmt.Printf("OK property=%s replay=%s holds on the current tree\n", rf.Property, path)
	return 0
}

// SeedFromEnv reads VERIF_SEED (default 1; 0 is remapped).
func SeedFromEnv() uint64 {
	v := os.Getenv("VERIF_SEED")
	if v == "" {
		return 1
	}
	n, err := strconv.ParseInt(v, 0, 64)
	if err != nil {
		u, err2 := strconv.ParseUint(v, 0, 64)
		if err2 != nil {
			return 1
		}
		return u
	}
	if n == 0 {
		return 0x5eed
	}
	return uint64(n)
}
