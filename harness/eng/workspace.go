package eng

import (
	"fmt"
	"os"
	"path/filepath"
	"strings"
	"sync"
	"time"
)

// ModPath is the module path of every rendered workspace.
const ModPath = "example.com/m"

// Workspace is a rendered Go module holding a batch of generated programs
// below progs/<name>/.
type Workspace struct {
	Dir   string
	Env   *Env
	Progs []string
}

// NewWorkspace creates the module skeleton: go.mod, the stub module for
// github.com/google/wire (a fresh copy of the repository's wire.go) and the
// dependency-free trace package.
func NewWorkspace(c *Ctx) (*Workspace, error) {
	dir := c.NewWorkDir("ws")
	w := &Workspace{Dir: dir, Env: c.Env}
	marker, err := os.ReadFile(filepath.Join(RepoDir(), "wire.go"))
	if err != nil {
		return nil, err
	}
	files := map[string]string{
		"go.mod":          "module " + ModPath + "\n\ngo 1.21\n\nrequire (\n\tgithub.com/google/wire v0.0.0\n\t" + ExtModPath + " v0.0.0\n)\n\nreplace github.com/google/wire => ./wiremod\n\nreplace " + ExtModPath + " => ./extmod\n",
		"wiremod/go.mod":  "module github.com/google/wire\n\ngo 1.21\n",
		"extmod/go.mod":   "module " + ExtModPath + "\n\ngo 1.21\n\nrequire github.com/google/wire v0.0.0\n",
		"extmod/ext.go":   "// Package ext is the root of a third-party module the programs may depend on.\npackage ext\n",
		"wiremod/wire.go": string(marker),
		"trace/trace.go":  TraceSource,
	}
	if err := WriteTree(dir, files); err != nil {
		return nil, err
	}
	return w, nil
}

// ExtModPath is the module path of the third-party module every workspace
// carries next to the programs (directory extmod, outside the programs' own
// sources).
const ExtModPath = "example.org/ext"

// AddExt writes files (relative to the third-party module's root).
func (w *Workspace) AddExt(files map[string]string) error {
	m := map[string]string{}
	for k, v := range files {
		m[filepath.Join("extmod", k)] = v
	}
	return WriteTree(w.Dir, m)
}

// UserRoot is the directory holding the programs: positions below it are in
// the user's own sources, positions in wiremod, extmod, trace or the standard
// library are not.
func (w *Workspace) UserRoot() string { return filepath.Join(w.Dir, "progs") }

// Remove deletes the workspace.
func (w *Workspace) Remove() { os.RemoveAll(w.Dir) }

// AddProg writes one program (files relative to progs/<name>/).
func (w *Workspace) AddProg(name string, files map[string]string) error {
	m := map[string]string{}
	for k, v := range files {
		m[filepath.Join("progs", name, k)] = v
	}
	w.Progs = append(w.Progs, name)
	return WriteTree(w.Dir, m)
}

// ProgPath is the import path of a program's root package.
func ProgPath(name string) string { return ModPath + "/progs/" + name }

// ProgObs is what one wire invocation said about one program.
type ProgObs struct {
	// Status: "done" (the invocation completed and per-package results are
	// meaningful), "loaderr" (Go type errors: the rendered program is not
	// type-correct), "panic", "timeout", "silent" (non-zero exit without any
	// diagnostic).
	Status string
	Exit   int
	Stderr string // only kept when the program was run alone
	Stdout string
	// GroupStderr/GroupStdout are the streams of the invocation that covered
	// this program (shared by all programs of the group).
	GroupStderr string
	GroupStdout string
	Pkgs        map[string]*PkgResult
	Alone       bool
	Dur         time.Duration
}

// Failed reports whether any package of the program failed.
func (o *ProgObs) Failed() bool {
	for _, p := range o.Pkgs {
		if p.Failed {
			return true
		}
	}
	return false
}

// Diags returns all diagnostics of all packages of the program.
func (o *ProgObs) Diags() []string {
	var out []string
	for _, k := range SortedKeys(o.Pkgs) {
		out = append(out, o.Pkgs[k].Diags...)
	}
	return out
}

// DiagText joins all diagnostics.
func (o *ProgObs) DiagText() string { return strings.Join(o.Diags(), "\n") }

// GenOpts tunes GenAll.
type GenOpts struct {
	Cmd    string        // gen (default), check, diff, show
	Flags  []string      // flags placed before the patterns
	Single time.Duration // timeout of a single-program invocation (default 60s)
	// StopOn, when set, ends the evaluation early once a single-program
	// observation satisfies it; the remaining programs get Status "skipped".
	StopOn func(*ProgObs) bool
	// ForceSingle, when set and true for the stderr of a multi-program
	// invocation, makes GenAll re-run every program of that group alone (used
	// when a diagnostic cannot be attributed to a program).
	ForceSingle func(stderr string) bool
}

func groupTimeout(n int) time.Duration {
	return 40*time.Second + time.Duration(n)*300*time.Millisecond
}

// GenAll runs `wire <cmd> [flags] ./progs/<name>/...` for the given programs,
// in one invocation when possible.  When the invocation collapses as a whole
// it is split so that every program gets its own verdict: halving for load
// errors and crashes (they fail fast), parallel single runs after a timeout.
func (w *Workspace) GenAll(names []string, o GenOpts) map[string]*ProgObs {
	if o.Cmd == "" {
		o.Cmd = "gen"
	}
	if o.Single == 0 {
		o.Single = 60 * time.Second
	}
	out := map[string]*ProgObs{}
	var mu sync.Mutex
	stopped := false
	isStopped := func() bool { mu.Lock(); defer mu.Unlock(); return stopped }
	runOnce := func(ns []string) (string, CmdResult, *GenOutput) {
		args := append([]string{o.Cmd}, o.Flags...)
		for _, n := range ns {
			args = append(args, "./progs/"+n+"/...")
		}
		to := groupTimeout(len(ns))
		if len(ns) == 1 {
			to = o.Single
		}
		r := w.Env.Wire(w.Dir, to, nil, args...)
		g := ParseGenStderr(r.Stderr)
		status := "done"
		switch {
		case r.TimedOut:
			status = "timeout"
		case g.Panicked || r.Exit == 2 && o.Cmd != "diff" || strings.Contains(r.Stderr, "fatal error:"):
			status = "panic"
		case r.Exit != 0 && len(g.Pkgs) == 0 && (g.Trailer == "generate failed" || g.Trailer == "error loading packages" && o.Cmd == "gen"):
			status = "loaderr"
		case r.Exit != 0 && len(g.Pkgs) == 0 && strings.TrimSpace(r.Stderr) == "" && strings.TrimSpace(r.Stdout) == "":
			status = "silent"
		}
		return status, r, g
	}
	record := func(ns []string, status string, r CmdResult, g *GenOutput) {
		for _, n := range ns {
			ob := &ProgObs{Status: status, Exit: r.Exit, Pkgs: map[string]*PkgResult{}, Alone: len(ns) == 1, Dur: r.Dur, GroupStderr: r.Stderr, GroupStdout: r.Stdout}
			if len(ns) == 1 {
				ob.Stderr = r.Stderr
				ob.Stdout = r.Stdout
			}
			pre := ProgPath(n)
			for p, pr := range g.Pkgs {
				if p == pre || strings.HasPrefix(p, pre+"/") {
					ob.Pkgs[p] = pr
				}
			}
			mu.Lock()
			out[n] = ob
			if len(ns) == 1 && o.StopOn != nil && o.StopOn(ob) {
				stopped = true
			}
			mu.Unlock()
		}
	}
	skip := func(ns []string) {
		mu.Lock()
		for _, n := range ns {
			out[n] = &ProgObs{Status: "skipped", Pkgs: map[string]*PkgResult{}}
		}
		mu.Unlock()
	}
	var rec func(ns []string)
	rec = func(ns []string) {
		if len(ns) == 0 {
			return
		}
		if isStopped() {
			skip(ns)
			return
		}
		status, r, g := runOnce(ns)
		if status == "done" && len(ns) > 1 && o.ForceSingle != nil && o.ForceSingle(r.Stderr) {
			status = "timeout" // re-run singly
		}
		if status == "done" || len(ns) == 1 {
			record(ns, status, r, g)
			return
		}
		if status == "timeout" {
			Parallel(len(ns), 6, func(i int) {
				if isStopped() {
					skip(ns[i : i+1])
					return
				}
				st, r1, g1 := runOnce(ns[i : i+1])
				record(ns[i:i+1], st, r1, g1)
			})
			return
		}
		h := len(ns) / 2
		rec(ns[:h])
		rec(ns[h:])
	}
	rec(names)
	return out
}

// GenFile returns the content of a generated file of a program ("" if absent).
func (w *Workspace) GenFile(name, rel string) string {
	b, err := os.ReadFile(filepath.Join(w.Dir, "progs", name, rel))
	if err != nil {
		return ""
	}
	return string(b)
}

// BuildAll runs `go build` on the given programs' packages (default tags) and
// returns, per program, the compiler output attributed to it ("" = builds).
func (w *Workspace) BuildAll(names []string, timeout time.Duration) (map[string]string, error) {
	out := map[string]string{}
	if len(names) == 0 {
		return out, nil
	}
	args := []string{"build", "-gcflags=-e"}
	for _, n := range names {
		args = append(args, "./progs/"+n+"/...")
	}
	r := w.Env.Go(w.Dir, timeout, nil, args...)
	if r.TimedOut {
		return nil, fmt.Errorf("go build timed out")
	}
	if r.Exit == 0 {
		return out, nil
	}
	// Attribute lines to programs by path.
	cur := ""
	for _, line := range strings.Split(r.Stderr, "\n") {
		if strings.HasPrefix(line, "# ") {
			cur = ""
			p := strings.Fields(line)[1]
			if strings.HasPrefix(p, ModPath+"/progs/") {
				cur = strings.SplitN(strings.TrimPrefix(p, ModPath+"/progs/"), "/", 2)[0]
			}
			continue
		}
		if line == "" {
			continue
		}
		name := cur
		if i := strings.Index(line, "progs/"); i >= 0 {
			name = strings.SplitN(line[i+len("progs/"):], "/", 2)[0]
		}
		if name == "" {
			name = "?"
		}
		out[name] += line + "\n"
	}
	if len(out) == 0 {
		return nil, fmt.Errorf("go build failed without attributable output: %s", r.Stderr)
	}
	return out, nil
}
