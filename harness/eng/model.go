package eng

import (
	"fmt"
	"go/token"
	"reflect"
	"sort"
	"unicode"
	"unicode/utf8"
)

// The reference model: a deliberately naive re-statement of Wire's documented
// semantics over Spec values.  It decides, per injector, whether the program
// must be accepted, and if not, which classes of diagnostics are expected;
// for accepted injectors it yields the designated source of every needed type.

// MErr is an expected rejection.
type MErr struct {
	// Class: sig, dupparam, dupfield, field-unknown, field-prevented, bind-impl,
	// bind-self, value-iface, value-unsafe, ivalue-impl, multi, bind-missing,
	// cycle, missing, unused, needs-err, needs-cleanup, inaccessible, inj-sig
	Class string   `json:"class"`
	Types []string `json:"types,omitempty"` // type strings a diagnostic may name
	Note  string   `json:"note,omitempty"`
}

// Src is the designated source of one provided type.
type Src struct {
	Kind      string // arg, func, struct, value, ivalue, field, bind
	Item      int
	Arg       int
	T         *Type
	Key       string
	FieldName string
	FieldPtr  bool // field: this key is the pointer-to-field output
	StructPtr bool // struct: this key is *S
	ConcKey   string
}

// Entry is a provider-map entry of one set.
type Entry struct {
	Src *Src
	Ref int // index of the set argument that contributed it (-1: injector parameter)
}

// SetRes is the evaluated form of one wire.NewSet / wire.Build argument list.
type SetRes struct {
	Map  map[string]*Entry
	Keys []string
	Errs []MErr
}

// Model evaluates a Spec.
type Model struct {
	S     *Spec
	named map[int]*SetRes
	busy  map[int]bool
}

// NewModel creates the model of a program.
func NewModel(s *Spec) *Model { return &Model{S: s, named: map[int]*SetRes{}, busy: map[int]bool{}} }

// K is the identity key of t.
func (m *Model) K(t *Type) string { return Key(m.S, t) }

func prevented(tag string) bool { return reflect.StructTag(tag).Get("wire") == "-" }

// StructDecl returns the struct declaration behind t (S, alias of S), or nil.
func (m *Model) StructDecl(t *Type) *Decl {
	_, d := Underlying(m.S, t)
	if d != nil && d.Form == "struct" {
		return d
	}
	return nil
}

// FieldsParent analyses the parent type of a wire.FieldsOf item: the struct
// declaration behind it and whether the parent is a pointer (fields are then
// also provided by pointer).  Defined types count through their underlying
// type, as in go/types: `type PS *S` is a pointer parent.
func (m *Model) FieldsParent(t *Type) (*Decl, bool) {
	u, d := Underlying(m.S, t)
	if d != nil {
		if d.Form == "struct" {
			return d, false
		}
		return nil, false
	}
	if u != nil && u.K == "ptr" {
		if sd := m.StructDecl(u.Elem); sd != nil {
			return sd, true
		}
	}
	return nil, false
}

// instField is the type of a field of type ft in the (possibly generic)
// struct type behind parent: type parameters P<i> are replaced by the
// parent's type arguments.
func (m *Model) instField(parent, ft *Type) *Type {
	p := resolveAlias(m.S, parent)
	for p != nil && (p.K == "ptr" || p.K == "named" && len(p.Args) == 0 && m.S.Decls[p.Decl].Form == "def") {
		if p.K == "ptr" {
			p = resolveAlias(m.S, p.Elem)
		} else {
			p = resolveAlias(m.S, m.S.Decls[p.Decl].Under)
		}
	}
	if p == nil || p.K != "named" || len(p.Args) == 0 {
		return ft
	}
	var sub func(t *Type) *Type
	sub = func(t *Type) *Type {
		if t == nil {
			return nil
		}
		if t.K == "tparam" {
			var i int
			if _, err := fmt.Sscanf(t.Basic, "P%d", &i); err == nil && i < len(p.Args) {
				return p.Args[i]
			}
			return t
		}
		c := *t
		c.Elem = sub(t.Elem)
		if len(t.Args) > 0 {
			c.Args = nil
			for _, a := range t.Args {
				c.Args = append(c.Args, sub(a))
			}
		}
		if len(t.Fields) > 0 {
			c.Fields = nil
			for _, f := range t.Fields {
				c.Fields = append(c.Fields, LitField{Name: f.Name, T: sub(f.T)})
			}
		}
		return &c
	}
	return sub(ft)
}

// fieldByName finds a field by exact name.
func fieldByName(d *Decl, name string) *SField {
	if name == "_" {
		return nil // blank fields have no name to be found by
	}
	for i := range d.Fields {
		if d.Fields[i].Name == name {
			return &d.Fields[i]
		}
	}
	return nil
}

// FuncResults returns the result list of a func item.
func (m *Model) FuncResults(it *Item) []*Type {
	if it.RawResults != nil {
		return it.RawResults
	}
	rs := []*Type{it.Out}
	if it.Cleanup {
		rs = append(rs, Func(nil))
	}
	if it.Err {
		rs = append(rs, &Type{K: "error"})
	}
	return rs
}

// classifyResults applies the documented signature table.
func (m *Model) classifyResults(rs []*Type) (out *Type, cleanup, err bool, bad string) {
	isErr := func(t *Type) bool { return m.K(t) == "error" }
	isCl := func(t *Type) bool { return m.K(t) == "func()" }
	switch len(rs) {
	case 0:
		return nil, false, false, "no return values"
	case 1:
		return rs[0], false, false, ""
	case 2:
		switch {
		case isErr(rs[1]):
			return rs[0], false, true, ""
		case isCl(rs[1]):
			return rs[0], true, false, ""
		}
		return nil, false, false, "second return type"
	case 3:
		if !isCl(rs[1]) {
			return nil, false, false, "second return type"
		}
		if !isErr(rs[2]) {
			return nil, false, false, "third return type"
		}
		return rs[0], true, true, ""
	}
	return nil, false, false, "too many return values"
}

// StructInputs returns the selected fields of a struct item (after validation).
func (m *Model) StructInputs(it *Item) []SField {
	d := m.StructDecl(it.Out)
	if d == nil {
		return nil
	}
	var out []SField
	if it.Star || it.Legacy {
		for _, f := range d.Fields {
			if it.Star && prevented(f.Tag) {
				continue
			}
			if f.Name == "_" {
				continue // a blank field cannot be set (nor named)
			}
			out = append(out, f)
		}
		return out
	}
	for _, n := range it.Fields {
		if f := fieldByName(d, n); f != nil {
			out = append(out, *f)
		}
	}
	return out
}

func (m *Model) itemErrs(i int) []MErr {
	it := &m.S.Items[i]
	var errs []MErr
	switch it.Kind {
	case "func":
		out, _, _, bad := m.classifyResults(m.FuncResults(it))
		if bad != "" {
			errs = append(errs, MErr{Class: "sig", Note: bad})
			return errs
		}
		_ = out
		seen := map[string]bool{}
		for _, p := range it.Params {
			k := m.K(p)
			if seen[k] {
				errs = append(errs, MErr{Class: "dupparam", Types: []string{k}})
				break
			}
			seen[k] = true
		}
	case "struct":
		d := m.StructDecl(it.Out)
		if d == nil || it.Out.K == "named" && len(it.Out.Args) > 0 {
			// wire.Struct wants new(NamedStruct); an instantiated generic type is not of that form
			errs = append(errs, MErr{Class: "notstruct"})
			return errs
		}
		if !it.Star && !it.Legacy {
			for _, n := range it.Fields {
				f := fieldByName(d, n)
				if f == nil {
					errs = append(errs, MErr{Class: "field-unknown", Note: n})
					return errs
				}
				if prevented(f.Tag) {
					errs = append(errs, MErr{Class: "field-prevented", Note: n})
					return errs
				}
			}
		}
		seen := map[string]bool{}
		for _, f := range m.StructInputs(it) {
			k := m.K(f.T)
			if seen[k] {
				errs = append(errs, MErr{Class: "dupfield", Types: []string{k}})
				break
			}
			seen[k] = true
		}
	case "bind":
		if m.K(it.Out) == m.K(it.Conc) {
			errs = append(errs, MErr{Class: "bind-self"})
		} else if !IsInterface(m.S, it.Out) {
			errs = append(errs, MErr{Class: "bind-notiface"})
		} else if !Implements(m.S, it.Conc, it.Out) {
			errs = append(errs, MErr{Class: "bind-impl", Types: []string{m.K(it.Conc), m.K(it.Out)}})
		}
	case "value":
		if it.ExprClass == "unsafe" {
			errs = append(errs, MErr{Class: "value-unsafe"})
		} else if IsInterface(m.S, it.Out) {
			errs = append(errs, MErr{Class: "value-iface"})
		}
	case "ivalue":
		if it.ExprClass == "unsafe" {
			// the statement covers both marker functions (see known finding D20)
			errs = append(errs, MErr{Class: "value-unsafe"})
		} else if !IsInterface(m.S, it.Out) {
			errs = append(errs, MErr{Class: "ivalue-notiface"})
		} else if !Implements(m.S, it.Conc, it.Out) {
			errs = append(errs, MErr{Class: "ivalue-impl", Types: []string{m.K(it.Conc), m.K(it.Out)}})
		}
	case "fields":
		d, _ := m.FieldsParent(it.Parent)
		if d == nil {
			errs = append(errs, MErr{Class: "notstruct"})
			return errs
		}
		if len(it.Fields) > len(d.Fields) {
			errs = append(errs, MErr{Class: "field-toomany"})
			return errs
		}
		for _, n := range it.Fields {
			f := fieldByName(d, n)
			if f == nil {
				errs = append(errs, MErr{Class: "field-unknown", Note: n})
				return errs
			}
			if prevented(f.Tag) {
				errs = append(errs, MErr{Class: "field-prevented", Note: n})
				return errs
			}
		}
	}
	return errs
}

// Sources lists the (key, Src) pairs item i provides.
func (m *Model) Sources(i int) []*Src {
	it := &m.S.Items[i]
	mk := func(kind string, t *Type) *Src { return &Src{Kind: kind, Item: i, T: t, Key: m.K(t)} }
	switch it.Kind {
	case "func":
		out, _, _, _ := m.classifyResults(m.FuncResults(it))
		if out == nil {
			return nil
		}
		return []*Src{mk("func", out)}
	case "struct":
		a := mk("struct", it.Out)
		b := mk("struct", Ptr(it.Out))
		b.StructPtr = true
		return []*Src{a, b}
	case "value":
		return []*Src{mk("value", it.Out)}
	case "ivalue":
		return []*Src{mk("ivalue", it.Out)}
	case "fields":
		d, isPtr := m.FieldsParent(it.Parent)
		var out []*Src
		for _, n := range it.Fields {
			f := fieldByName(d, n)
			if f == nil {
				continue
			}
			ft := m.instField(it.Parent, f.T)
			s := mk("field", ft)
			s.FieldName = n
			out = append(out, s)
			if isPtr {
				p := mk("field", Ptr(ft))
				p.FieldName = n
				p.FieldPtr = true
				out = append(out, p)
			}
		}
		return out
	}
	return nil
}

// evalNamed evaluates a named set (following aliases), cached.
func (m *Model) evalNamed(i int) *SetRes {
	for m.S.Sets[i].AliasOf >= 0 {
		i = m.S.Sets[i].AliasOf
	}
	if r, ok := m.named[i]; ok {
		return r
	}
	if m.busy[i] {
		return &SetRes{Map: map[string]*Entry{}, Errs: []MErr{{Class: "set-recursion"}}}
	}
	m.busy[i] = true
	r := m.EvalSet(m.S.Sets[i].Args, nil)
	m.busy[i] = false
	m.named[i] = r
	return r
}

// canonSet follows set aliases.
func (m *Model) canonSet(i int) int {
	for m.S.Sets[i].AliasOf >= 0 {
		i = m.S.Sets[i].AliasOf
	}
	return i
}

// EvalSet evaluates an argument list (with the injector's parameters for
// wire.Build).
func (m *Model) EvalSet(args []Ref, params []Param) *SetRes {
	res := &SetRes{Map: map[string]*Entry{}}
	add := func(s *Src, ref int) bool {
		if _, dup := res.Map[s.Key]; dup {
			res.Errs = append(res.Errs, MErr{Class: "multi", Types: []string{s.Key}})
			return false
		}
		res.Map[s.Key] = &Entry{Src: s, Ref: ref}
		res.Keys = append(res.Keys, s.Key)
		return true
	}
	// item validity and nested sets first: any error there ends the evaluation
	subs := map[int]*SetRes{}
	var early []MErr
	for ai, a := range args {
		switch {
		case a.Item >= 0:
			early = append(early, m.itemErrs(a.Item)...)
		case a.Set >= 0:
			r := m.evalNamed(a.Set)
			subs[ai] = r
			early = append(early, r.Errs...)
		default:
			r := m.EvalSet(a.Inline, nil)
			subs[ai] = r
			early = append(early, r.Errs...)
		}
	}
	if len(early) > 0 {
		res.Errs = early
		return res
	}
	for pi, p := range params {
		add(&Src{Kind: "arg", Item: -1, Arg: pi, T: p.T, Key: m.K(p.T)}, -1)
	}
	for ai := range args {
		if r, ok := subs[ai]; ok {
			for _, k := range r.Keys {
				add(r.Map[k].Src, ai)
			}
		}
	}
	for ai, a := range args {
		if a.Item >= 0 && m.S.Items[a.Item].Kind != "bind" {
			for _, s := range m.Sources(a.Item) {
				add(s, ai)
			}
		}
	}
	if len(res.Errs) > 0 {
		return res
	}
	for ai, a := range args {
		if a.Item >= 0 && m.S.Items[a.Item].Kind == "bind" {
			it := &m.S.Items[a.Item]
			ik, ck := m.K(it.Out), m.K(it.Conc)
			if _, dup := res.Map[ik]; dup {
				res.Errs = append(res.Errs, MErr{Class: "multi", Types: []string{ik}})
				continue
			}
			if _, ok := res.Map[ck]; !ok {
				res.Errs = append(res.Errs, MErr{Class: "bind-missing", Types: []string{ck, ik}})
				continue
			}
			res.Map[ik] = &Entry{Src: &Src{Kind: "bind", Item: a.Item, T: it.Out, Key: ik, ConcKey: ck}, Ref: ai}
			res.Keys = append(res.Keys, ik)
		}
	}
	if len(res.Errs) > 0 {
		return res
	}
	if cyc := m.cycleKeys(res); len(cyc) > 0 {
		res.Errs = append(res.Errs, MErr{Class: "cycle", Types: cyc})
	}
	return res
}

// Deps lists the keys a source depends on.
func (m *Model) Deps(s *Src) []string {
	switch s.Kind {
	case "func":
		var out []string
		for _, p := range m.S.Items[s.Item].Params {
			out = append(out, m.K(p))
		}
		return out
	case "struct":
		var out []string
		for _, f := range m.StructInputs(&m.S.Items[s.Item]) {
			out = append(out, m.K(f.T))
		}
		return out
	case "field":
		return []string{m.K(m.S.Items[s.Item].Parent)}
	case "bind":
		return []string{s.ConcKey}
	}
	return nil
}

// cycleKeys returns the keys lying on some directed cycle of the set's graph.
func (m *Model) cycleKeys(r *SetRes) []string {
	color := map[string]int{}
	onCycle := map[string]bool{}
	var stack []string
	var dfs func(k string)
	dfs = func(k string) {
		color[k] = 1
		stack = append(stack, k)
		if e, ok := r.Map[k]; ok {
			for _, d := range m.Deps(e.Src) {
				switch color[d] {
				case 0:
					if _, in := r.Map[d]; in {
						dfs(d)
					}
				case 1:
					for i := len(stack) - 1; i >= 0; i-- {
						onCycle[stack[i]] = true
						if stack[i] == d {
							break
						}
					}
				}
			}
		}
		stack = stack[:len(stack)-1]
		color[k] = 2
	}
	keys := append([]string(nil), r.Keys...)
	sort.Strings(keys)
	for _, k := range keys {
		if color[k] == 0 {
			dfs(k)
		}
	}
	return SortedKeys(onCycle)
}

// Verdict is the model's decision about one injector.
type Verdict struct {
	Accept bool
	Errs   []MErr
	// The remaining fields are filled for accepted injectors.
	Set       *SetRes
	Needed    []string // needed keys (bindings included) in dependency-first order
	FuncItems []int    // provider functions that must run, each exactly once
	ErrItems  []int    // those of them that can fail
	ClItems   []int    // those of them that return a cleanup
	// PartialFields is set when a wire.FieldsOf lists several fields of which
	// only some are used: the documents leave the verdict open.
	PartialFields bool
	// Either is set when the verdict is left open by the documents (e.g. a
	// harmless value expression outside the documented forms).
	Either bool
}

// Classes returns the set of expected error classes.
func (v *Verdict) Classes() map[string]bool {
	out := map[string]bool{}
	for _, e := range v.Errs {
		out[e.Class] = true
	}
	return out
}

// InjResults returns the injector's result list.
func (m *Model) InjResults(in *Injector) []*Type {
	if in.RawResults != nil {
		return in.RawResults
	}
	rs := []*Type{in.Out}
	if in.Cleanup {
		rs = append(rs, Func(nil))
	}
	if in.Err {
		rs = append(rs, &Type{K: "error"})
	}
	return rs
}

// Resolve follows bindings to the concrete source of key k in set r.
func (m *Model) Resolve(r *SetRes, k string) *Src {
	for i := 0; i < 100; i++ {
		e, ok := r.Map[k]
		if !ok {
			return nil
		}
		if e.Src.Kind != "bind" {
			return e.Src
		}
		k = e.Src.ConcKey
	}
	return nil
}

// Judge decides injector i.
func (m *Model) Judge(i int) *Verdict {
	in := &m.S.Injectors[i]
	v := &Verdict{}
	out, hasCl, hasErr, bad := m.classifyResults(m.InjResults(in))
	if bad != "" {
		v.Errs = append(v.Errs, MErr{Class: "inj-sig", Note: bad})
		return v
	}
	// an injector parameter spelled like a function or set of the injector's
	// package that the build list names (unqualified) shadows it there: the
	// list then names the parameter, which is no provider
	for _, a := range in.Args {
		name := ""
		switch {
		case a.Item >= 0 && m.S.Items[a.Item].Kind == "func" && m.S.Items[a.Item].Pkg == 0:
			name = m.S.Items[a.Item].Name
		case a.Set >= 0 && m.S.Sets[a.Set].Pkg == 0:
			name = m.S.Sets[a.Set].Name
		}
		for _, p := range in.Params {
			if name != "" && p.Name == name {
				v.Errs = append(v.Errs, MErr{Class: "notprovider", Note: name})
				return v
			}
		}
	}
	ptypes := in.Params
	set := m.EvalSet(in.Args, ptypes)
	v.Set = set
	if len(set.Errs) > 0 {
		v.Errs = set.Errs
		return v
	}
	// resolution
	visited := map[string]bool{}
	usedKeys := map[string]bool{}
	missing := map[string]bool{}
	var order []string
	var visit func(k string)
	visit = func(k string) {
		if visited[k] {
			return
		}
		visited[k] = true
		e, ok := set.Map[k]
		if !ok {
			missing[k] = true
			return
		}
		usedKeys[k] = true
		for _, d := range m.Deps(e.Src) {
			visit(d)
		}
		order = append(order, k)
	}
	visit(m.K(out))
	if len(missing) > 0 {
		v.Errs = append(v.Errs, MErr{Class: "missing", Types: SortedKeys(missing)})
		return v
	}
	// unused direct arguments
	usedRef := map[int]bool{}
	usedItem := map[int]bool{}
	usedField := map[string]bool{}
	for k := range usedKeys {
		e := set.Map[k]
		usedRef[e.Ref] = true
		if e.Src.Item >= 0 {
			usedItem[e.Src.Item] = true
			if e.Src.Kind == "field" {
				usedField[fmt.Sprintf("%d/%s", e.Src.Item, e.Src.FieldName)] = true
			}
		}
	}
	for ai, a := range in.Args {
		switch {
		case a.Item >= 0:
			it := &m.S.Items[a.Item]
			if it.Kind == "fields" {
				n := 0
				for _, f := range it.Fields {
					if usedField[fmt.Sprintf("%d/%s", a.Item, f)] {
						n++
					}
				}
				if n == 0 {
					v.Errs = append(v.Errs, MErr{Class: "unused", Note: "field"})
				} else if n < len(it.Fields) {
					v.PartialFields = true
				}
				continue
			}
			// the same item listed directly is used iff one of the keys it
			// contributed at this position is used
			if !usedRef[ai] {
				v.Errs = append(v.Errs, MErr{Class: "unused", Note: it.Kind})
			}
		default:
			if !usedRef[ai] {
				v.Errs = append(v.Errs, MErr{Class: "unused", Note: "set"})
			}
		}
	}
	if len(v.Errs) > 0 {
		return v
	}
	// needs of the injector signature, visibility
	seenItem := map[int]bool{}
	for _, k := range order {
		s := set.Map[k].Src
		if s.Kind == "bind" || s.Kind == "arg" {
			continue
		}
		it := &m.S.Items[s.Item]
		switch s.Kind {
		case "func":
			_, cl, er, _ := m.classifyResults(m.FuncResults(it))
			if !seenItem[s.Item] {
				seenItem[s.Item] = true
				v.FuncItems = append(v.FuncItems, s.Item)
				if er {
					v.ErrItems = append(v.ErrItems, s.Item)
				}
				if cl {
					v.ClItems = append(v.ClItems, s.Item)
				}
			}
			if cl && !hasCl {
				v.Errs = append(v.Errs, MErr{Class: "needs-cleanup", Types: []string{k}})
			}
			if er && !hasErr {
				v.Errs = append(v.Errs, MErr{Class: "needs-err", Types: []string{k}})
			}
			if it.Pkg != 0 && !exported(it.Name) {
				v.Errs = append(v.Errs, MErr{Class: "inaccessible", Note: it.Name})
			}
		case "value", "ivalue":
			if it.ExprClass == "inaccessible" {
				v.Errs = append(v.Errs, MErr{Class: "inaccessible", Note: "value expression"})
			}
			if it.ExprClass == "either" {
				v.Either = true
			}
		case "struct":
			d := m.StructDecl(it.Out)
			if d != nil && d.Pkg != 0 {
				ot := resolveAlias(m.S, it.Out)
				nm := m.S.Decls[ot.Decl].Name
				if it.Out.K == "named" {
					nm = m.S.Decls[it.Out.Decl].Name
				}
				if !exported(nm) {
					v.Errs = append(v.Errs, MErr{Class: "inaccessible", Note: nm})
				}
				for _, f := range m.StructInputs(it) {
					if !exported(f.Name) {
						v.Errs = append(v.Errs, MErr{Class: "inaccessible", Note: f.Name})
					}
				}
			}
		case "field":
			if d, _ := m.FieldsParent(it.Parent); d != nil && d.Pkg != 0 && !exported(s.FieldName) {
				v.Errs = append(v.Errs, MErr{Class: "inaccessible", Note: s.FieldName})
			}
		}
	}
	if len(v.Errs) > 0 {
		return v
	}
	v.Accept = true
	v.Needed = order
	return v
}

func exported(name string) bool {
	r, _ := utf8.DecodeRuneInString(name)
	return unicode.IsUpper(r)
}

// IsKeyword reports whether s is a Go keyword.
func IsKeyword(s string) bool { return token.Lookup(s).IsKeyword() }
