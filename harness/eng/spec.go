package eng

import (
	"encoding/json"
	"fmt"
)

// Item is one provider-set member.
type Item struct {
	// Kind: func, struct, value, ivalue, bind, fields
	Kind string `json:"kind"`
	// func: the package declaring the function; Name is its identifier.
	Pkg  int    `json:"pkg,omitempty"`
	Name string `json:"name,omitempty"`
	// func
	Params   []*Type `json:"params,omitempty"`
	Variadic bool    `json:"variadic,omitempty"`
	Cleanup  bool    `json:"cleanup,omitempty"`
	Err      bool    `json:"err,omitempty"`
	// RawResults, when set, overrides the result list of the function with
	// arbitrary result types (used by the signature-rule property).
	RawResults []*Type `json:"raw"`
	// Out: func result type; struct: the named struct type; value: the value's
	// type; ivalue/bind: the interface type.
	Out *Type `json:"out,omitempty"`
	// struct: field names or "*"; Legacy selects the deprecated S{} / &S{} form.
	Fields    []string `json:"fieldnames,omitempty"`
	Star      bool     `json:"star,omitempty"`
	Legacy    bool     `json:"legacy,omitempty"`
	LegacyPtr bool     `json:"legacyptr,omitempty"`
	// ivalue: Conc is the concrete type of the value expression.
	// bind: Conc is the bound type (as it appears in the provider map: C or *C).
	Conc *Type `json:"conc,omitempty"`
	// fields: Parent is S or *S.
	Parent *Type `json:"parent,omitempty"`
	// value/ivalue: Tok is the literal token carried by the value; Expr
	// optionally overrides the rendered expression (C13).
	Tok  int    `json:"tok,omitempty"`
	Expr string `json:"expr,omitempty"`
	// ExprImports lists the packages Expr mentions (by qualified identifier).
	ExprImports []int `json:"exprimports,omitempty"`
	// ExprClass is the generator's classification of Expr: "" or "safe"
	// (documented form: must be accepted), "unsafe" (would call a function or
	// method or receive from a channel), "inaccessible" (mentions identifiers
	// the injector's package cannot access), "either" (harmless but outside the
	// documented list: either verdict).
	ExprClass string `json:"exprclass,omitempty"`
	// NoRef suppresses the home-package reference variable (the expression is
	// not valid at package level, e.g. it mentions an injector parameter).
	NoRef bool `json:"noref,omitempty"`
}

// Ref is an argument of wire.Build / wire.NewSet: an item, a named set, or an
// inline wire.NewSet(...) call.
type Ref struct {
	Item   int   `json:"item"`   // -1 if not an item
	Set    int   `json:"set"`    // -1 if not a named set
	Inline []Ref `json:"inline"` // non-nil for an inline set
}

func RItem(i int) Ref { return Ref{Item: i, Set: -1} }
func RSet(i int) Ref  { return Ref{Item: -1, Set: i} }
func RInline(rs []Ref) Ref {
	if rs == nil {
		rs = []Ref{}
	}
	return Ref{Item: -1, Set: -1, Inline: rs}
}

// IsInline reports whether r is an inline set.
func (r Ref) IsInline() bool { return r.Item < 0 && r.Set < 0 }

// Set is a package-level provider-set variable.
type Set struct {
	Pkg     int    `json:"pkg"`
	Name    string `json:"name"`
	Args    []Ref  `json:"args"`
	AliasOf int    `json:"aliasof"` // >=0: `var Name = Other`
}

// Param is an injector parameter.
type Param struct {
	Name string `json:"name"` // "", "_" allowed
	T    *Type  `json:"t"`
}

// Injector is an injector template in the root package.
type Injector struct {
	Name     string  `json:"name"`
	File     int     `json:"file"`
	Params   []Param `json:"params"`
	Variadic bool    `json:"variadic,omitempty"`
	Out      *Type   `json:"out"`
	Cleanup  bool    `json:"cleanup,omitempty"`
	Err      bool    `json:"err,omitempty"`
	Panic    bool    `json:"panic,omitempty"` // panic(wire.Build(...)) form
	Args     []Ref   `json:"args"`
	// RawResults overrides the result list (signature-rule property).
	RawResults []*Type `json:"raw"`
	Doc        string  `json:"doc,omitempty"`
	// ResNames names the results of the template (all of them, "_" allowed);
	// ignored unless its length equals the number of results.
	ResNames []string `json:"resnames,omitempty"`
}

// Run is one injector call of the generated driver.
type Run struct {
	Inj   int `json:"inj"`
	Fault int `json:"fault"` // item index of the provider to fail, -1 = none
	// Zero passes the zero value for every injector argument (instead of
	// token-carrying values).
	Zero bool `json:"zero,omitempty"`
}

// Spec is a whole generated program.
type Spec struct {
	Pkgs      []Pkg      `json:"pkgs"`
	Decls     []Decl     `json:"decls"`
	Items     []Item     `json:"items"`
	Sets      []Set      `json:"sets"`
	Injectors []Injector `json:"injectors"`
	Plan      []Run      `json:"plan,omitempty"`
	// ImportAlias[pkg] is the alias under which user files import package pkg
	// ("" = none).
	ImportAlias map[int]string `json:"importalias,omitempty"`
	// DotImports lists packages that the root package's files dot-import.
	DotImports []int `json:"dotimports,omitempty"`
	// SetsInInject writes the root package's set variables into the injector
	// files (so that Wire copies them into wire_gen.go) instead of sets.go.
	SetsInInject bool `json:"setsininject,omitempty"`
	// WireImport selects how the files import Wire's marker package: ""
	// (plain), "raw" (import path written as a raw string literal) or
	// "alias" (renamed import).
	WireImport string `json:"wireimport,omitempty"`
	// ExtRoot, when set, gives the non-root packages import paths below it
	// (external dependencies) instead of below the program's own path.
	ExtRoot string `json:"extroot,omitempty"`
	// NoTrace renders provider bodies without the trace package and omits the driver.
	NoTrace bool `json:"notrace,omitempty"`
	// Blank lists import paths that injector files import for side effects (_).
	Blank []string `json:"blank,omitempty"`
	// Note describes how the program was derived (mutation, matrix cell).
	Note string `json:"note,omitempty"`
	// JointSets renders the set variables of each package in one multi-name
	// var spec: var A, B = wire.NewSet(...), wire.NewSet(...).
	JointSets bool `json:"jointsets,omitempty"`
	// PkgExtra is free-form source (declarations only, no package clause or
	// imports) added to a package as file extra_decls.go; PkgExtraImports lists
	// import lines it needs.
	PkgExtra        map[int]string   `json:"pkgextra,omitempty"`
	PkgExtraImports map[int][]string `json:"pkgextraimports,omitempty"`
	// InjConstraints gives injector file number k (Injector.File) another
	// build constraint than the plain "wireinject" (it must still hold exactly
	// when the wireinject tag is set, given the tags the check passes).
	InjConstraints map[int]string `json:"injconstraints,omitempty"`
	// InjExtra is free-form source (declarations) appended to the first
	// injector file, so that Wire copies it into its output; InjExtraImports
	// maps the import paths it needs to the names it uses for them.
	InjExtra        string            `json:"injextra,omitempty"`
	InjExtraImports map[string]string `json:"injextraimports,omitempty"`
	// Extra is free-form source appended to the root package (C14/C15 use it).
	Extra string `json:"extra,omitempty"`
	// name is the program's directory below progs/, set when rendering.
	name string
}

// SetName sets the program directory name (import path suffix).
func (s *Spec) SetName(n string) { s.name = n }

// ProgName returns the program's directory name.
func (s *Spec) ProgName() string { return s.name }

func (s *Spec) decl(i int) *Decl { return &s.Decls[i] }
func (s *Spec) pkgPath(i int) string {
	if i < 0 {
		return "unsafe"
	}
	if s.ExtRoot != "" && i > 0 {
		return s.ExtRoot + "/" + s.Pkgs[i].Dir
	}
	p := ProgPath(s.name)
	if s.Pkgs[i].Dir != "" {
		p += "/" + s.Pkgs[i].Dir
	}
	return p
}
func (s *Spec) pkgName(i int) string { return s.Pkgs[i].Name }

// PkgPathOf is the import path of package i of the program.
func (s *Spec) PkgPathOf(i int) string { return s.pkgPath(i) }

// TS is TypeString in the context of this program.
func (s *Spec) TS(t *Type) string { return TypeString(s, t) }

// Hash is a stable hash of the program (independent of its directory name).
func (s *Spec) Hash() string {
	b, _ := json.Marshal(s)
	return HashString(string(b))
}

// Clone deep-copies the spec.
func (s *Spec) Clone() *Spec {
	b, _ := json.Marshal(s)
	var c Spec
	if err := json.Unmarshal(b, &c); err != nil {
		panic(err)
	}
	c.name = s.name
	return &c
}

// ItemID is the runtime identifier of item i in traces.
func ItemID(i int) string { return fmt.Sprintf("p%d", i) }
