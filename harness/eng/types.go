package eng

import (
	"fmt"
	"sort"
	"strings"
)

// Type is a term of the type language of generated programs.  Go's identity
// rules are built in through Key: two terms denote identical types iff their
// keys are equal.
type Type struct {
	K       string     `json:"k"`                 // named, ptr, slice, array, map, chan, func, structlit, ifacelit, basic, unsafe, error
	Decl    int        `json:"decl,omitempty"`    // named: index into Spec.Decls
	Args    []*Type    `json:"args,omitempty"`    // named: type arguments of a generic declaration
	Elem    *Type      `json:"elem,omitempty"`    // ptr/slice/array/map(value)/chan/func(result)
	N       int        `json:"n,omitempty"`       // array length; chan direction 0 both, 1 send-only, 2 receive-only
	Basic   string     `json:"basic,omitempty"`   // basic: int, string, bool, float64, ...
	Fields  []LitField `json:"fields,omitempty"`  // structlit
	Methods []string   `json:"methods,omitempty"` // ifacelit: method names, each `func() int`
	// Sp selects an alternative spelling of the same type (identity, and so
	// TypeString/Key, do not depend on it): byte for uint8, rune for int32,
	// any for interface{}, a named result for a function type.
	Sp int `json:"sp,omitempty"`
}

// Respell returns a copy of t in which every component that has an
// alternative spelling uses it, and whether anything changed.  Named types
// and their arguments are left alone.
func Respell(t *Type) (*Type, bool) {
	if t == nil {
		return nil, false
	}
	c := *t
	changed := false
	switch t.K {
	case "basic":
		if (t.Basic == "uint8" || t.Basic == "int32") && t.Sp == 0 {
			c.Sp, changed = 1, true
		}
	case "ifacelit":
		if len(t.Methods) == 0 && t.Sp == 0 {
			c.Sp, changed = 1, true
		}
	case "func":
		if t.Elem != nil {
			e, _ := Respell(t.Elem)
			c.Elem = e
			if t.Sp == 0 {
				c.Sp, changed = 1, true
			}
		}
	case "ptr", "slice", "array", "map", "chan":
		e, ch := Respell(t.Elem)
		c.Elem, changed = e, ch
	case "structlit":
		c.Fields = nil
		for _, f := range t.Fields {
			e, ch := Respell(f.T)
			changed = changed || ch
			c.Fields = append(c.Fields, LitField{Name: f.Name, T: e})
		}
	}
	return &c, changed
}

// LitField is a field of an unnamed struct type.
type LitField struct {
	Name string `json:"name"`
	T    *Type  `json:"t"`
}

// Decl is a named type declaration (or alias) in some package of the program.
type Decl struct {
	Pkg  int    `json:"pkg"`
	Name string `json:"name"`
	// Form: struct, iface, alias, or "def" (type Name <Under>)
	Form    string   `json:"form"`
	TParams int      `json:"tparams,omitempty"` // number of type parameters (P0, P1, ... any); struct declarations only
	Under   *Type    `json:"under,omitempty"`   // def: underlying type term; alias: target
	Fields  []SField `json:"fields,omitempty"`  // struct
	Methods []Method `json:"methods,omitempty"` // methods declared on this (non-interface) type
	IMeth   []string `json:"imeth,omitempty"`   // iface: own method names
	Embeds  []int    `json:"embeds,omitempty"`  // iface: embedded interface decls
}

// SField is a field of a named struct.
type SField struct {
	Name     string `json:"name"`
	T        *Type  `json:"t"`
	Tag      string `json:"tag,omitempty"`
	Embedded bool   `json:"embedded,omitempty"`
}

// Method is a method of a concrete named type; every method is `func() int`.
type Method struct {
	Name    string `json:"name"`
	PtrRecv bool   `json:"ptr,omitempty"`
}

// Constructors.
func Named(d int) *Type           { return &Type{K: "named", Decl: d} }
func Ptr(e *Type) *Type           { return &Type{K: "ptr", Elem: e} }
func Slice(e *Type) *Type         { return &Type{K: "slice", Elem: e} }
func Array(n int, e *Type) *Type  { return &Type{K: "array", N: n, Elem: e} }
func Map(e *Type) *Type           { return &Type{K: "map", Elem: e} }
func Chan(dir int, e *Type) *Type { return &Type{K: "chan", N: dir, Elem: e} }
func Func(e *Type) *Type          { return &Type{K: "func", Elem: e} }
func Basic(name string) *Type     { return &Type{K: "basic", Basic: name} }

// Pkg is one package of a generated program.
type Pkg struct {
	Dir  string `json:"dir"`  // "" for the root package, else sub-directory
	Name string `json:"name"` // package identifier
}

// typeCtx gives the type functions access to declarations and packages.
type typeCtx interface {
	decl(i int) *Decl
	pkgPath(i int) string // full import path
	pkgName(i int) string
}

// resolveAlias follows alias declarations.
func resolveAlias(c typeCtx, t *Type) *Type {
	for t != nil && t.K == "named" {
		d := c.decl(t.Decl)
		if d.Form != "alias" {
			return t
		}
		t = d.Under
	}
	return t
}

// TypeString prints t the way go/types.TypeString(t, nil) does (full import
// paths, aliases resolved because Wire is built with gotypesalias=0).
func TypeString(c typeCtx, t *Type) string {
	t = resolveAlias(c, t)
	switch t.K {
	case "named":
		d := c.decl(t.Decl)
		out := c.pkgPath(d.Pkg) + "." + d.Name
		if len(t.Args) > 0 {
			var as []string
			for _, a := range t.Args {
				as = append(as, TypeString(c, a))
			}
			out += "[" + strings.Join(as, ", ") + "]"
		}
		return out
	case "ptr":
		return "*" + TypeString(c, t.Elem)
	case "slice":
		return "[]" + TypeString(c, t.Elem)
	case "array":
		return fmt.Sprintf("[%d]%s", t.N, TypeString(c, t.Elem))
	case "map":
		return "map[string]" + TypeString(c, t.Elem)
	case "chan":
		e := TypeString(c, t.Elem)
		switch t.N {
		case 1:
			return "chan<- " + e
		case 2:
			return "<-chan " + e
		}
		if et := resolveAlias(c, t.Elem); et.K == "chan" && et.N == 2 {
			return "chan (" + e + ")"
		}
		return "chan " + e
	case "func":
		if t.Elem == nil {
			return "func()"
		}
		return "func() " + TypeString(c, t.Elem)
	case "structlit":
		var fs []string
		for _, f := range t.Fields {
			fs = append(fs, f.Name+" "+TypeString(c, f.T))
		}
		return "struct{" + strings.Join(fs, "; ") + "}"
	case "ifacelit":
		ms := append([]string(nil), t.Methods...)
		sort.Strings(ms)
		for i := range ms {
			ms[i] += "() int"
		}
		return "interface{" + strings.Join(ms, "; ") + "}"
	case "basic":
		return t.Basic
	case "unsafe":
		return "unsafe.Pointer"
	case "error":
		return "error"
	}
	return "?" + t.K
}

// Key is the identity key of a type: equal keys <=> identical types.  For
// unnamed struct types with unexported field names the declaring package
// would matter; generated struct literals only use exported field names.
func Key(c typeCtx, t *Type) string { return TypeString(c, t) }

// GoType renders t as Go source as seen from package from.  imports is
// notified of every package that must be imported.
func GoType(c typeCtx, t *Type, from int, use func(pkg int) string) string {
	switch t.K {
	case "named":
		d := c.decl(t.Decl)
		targs := ""
		if len(t.Args) > 0 {
			var as []string
			for _, a := range t.Args {
				as = append(as, GoType(c, a, from, use))
			}
			targs = "[" + strings.Join(as, ", ") + "]"
		}
		if d.Pkg == from {
			return d.Name + targs
		}
		if q := use(d.Pkg); q != "" {
			return q + "." + d.Name + targs
		}
		return d.Name + targs
	case "ptr":
		return "*" + GoType(c, t.Elem, from, use)
	case "slice":
		return "[]" + GoType(c, t.Elem, from, use)
	case "array":
		return fmt.Sprintf("[%d]%s", t.N, GoType(c, t.Elem, from, use))
	case "map":
		return "map[string]" + GoType(c, t.Elem, from, use)
	case "chan":
		e := GoType(c, t.Elem, from, use)
		switch t.N {
		case 1:
			return "chan<- " + e
		case 2:
			return "<-chan " + e
		}
		if t.Elem.K == "chan" && t.Elem.N == 2 {
			return "chan (" + e + ")"
		}
		return "chan " + e
	case "func":
		if t.Elem == nil {
			return "func()"
		}
		if t.Sp == 1 {
			return "func() (zzres " + GoType(c, t.Elem, from, use) + ")"
		}
		return "func() " + GoType(c, t.Elem, from, use)
	case "structlit":
		var fs []string
		for _, f := range t.Fields {
			fs = append(fs, f.Name+" "+GoType(c, f.T, from, use))
		}
		return "struct{ " + strings.Join(fs, "; ") + " }"
	case "ifacelit":
		if len(t.Methods) == 0 && t.Sp == 1 {
			return "any"
		}
		var ms []string
		for _, m := range t.Methods {
			ms = append(ms, m+"() int")
		}
		return "interface{ " + strings.Join(ms, "; ") + " }"
	case "basic", "tparam":
		if t.Sp == 1 {
			switch t.Basic {
			case "uint8":
				return "byte"
			case "int32":
				return "rune"
			}
		}
		return t.Basic
	case "unsafe":
		return use(-1) + ".Pointer"
	case "error":
		return "error"
	}
	return "?"
}

// Underlying returns the underlying type term of t (following named "def"
// declarations and aliases); for named structs/interfaces it returns nil and
// the caller must look at the declaration.
func Underlying(c typeCtx, t *Type) (*Type, *Decl) {
	for {
		t = resolveAlias(c, t)
		if t.K != "named" {
			return t, nil
		}
		d := c.decl(t.Decl)
		if d.Form == "def" {
			t = d.Under
			continue
		}
		return nil, d
	}
}

// IsInterface reports whether t's underlying type is an interface.
func IsInterface(c typeCtx, t *Type) bool {
	u, d := Underlying(c, t)
	if d != nil {
		return d.Form == "iface"
	}
	return u.K == "ifacelit" || u.K == "error"
}

// IfaceMethods returns the method set (names) required by interface type t.
func IfaceMethods(c typeCtx, t *Type) []string {
	u, d := Underlying(c, t)
	set := map[string]bool{}
	var walk func(d *Decl)
	walk = func(d *Decl) {
		for _, m := range d.IMeth {
			set[m] = true
		}
		for _, e := range d.Embeds {
			walk(c.decl(e))
		}
	}
	if d != nil {
		if d.Form == "iface" {
			walk(d)
		}
	} else if u.K == "ifacelit" {
		for _, m := range u.Methods {
			set[m] = true
		}
	} else if u.K == "error" {
		set["Error"] = true
	}
	return SortedKeys(set)
}

// MethodSet returns the method names in the method set of (non-interface or
// interface) type t according to the Go specification.
func MethodSet(c typeCtx, t *Type) map[string]bool {
	t = resolveAlias(c, t)
	out := map[string]bool{}
	if IsInterface(c, t) {
		for _, m := range IfaceMethods(c, t) {
			out[m] = true
		}
		return out
	}
	switch t.K {
	case "named":
		d := c.decl(t.Decl)
		for _, m := range d.Methods {
			if !m.PtrRecv {
				out[m.Name] = true
			}
		}
		// promoted methods of embedded fields
		if d.Form == "struct" {
			for _, f := range d.Fields {
				if f.Embedded {
					for m := range MethodSet(c, f.T) {
						out[m] = true
					}
				}
			}
		}
	case "ptr":
		e := resolveAlias(c, t.Elem)
		if e.K == "named" {
			d := c.decl(e.Decl)
			if d.Form == "iface" {
				return out // pointer to interface has no methods
			}
			for _, m := range d.Methods {
				out[m.Name] = true
			}
			if d.Form == "struct" {
				for _, f := range d.Fields {
					if f.Embedded {
						// *S with embedded T has methods of *T; with embedded *T likewise
						ft := resolveAlias(c, f.T)
						if ft.K == "ptr" {
							for m := range MethodSet(c, ft) {
								out[m] = true
							}
						} else {
							for m := range MethodSet(c, Ptr(ft)) {
								out[m] = true
							}
						}
					}
				}
			}
		}
	}
	return out
}

// Implements reports whether t implements interface type iface.
func Implements(c typeCtx, t, iface *Type) bool {
	ms := MethodSet(c, t)
	for _, m := range IfaceMethods(c, iface) {
		if !ms[m] {
			return false
		}
	}
	return true
}
