package eng

// TraceSource is the source of the dependency-free runtime support package
// rendered into every workspace as example.com/m/trace.  Providers and the
// generated drivers record events into it; the runner fingerprints the boxed
// values afterwards with reflection.
const TraceSource = `package trace

// Event is one recorded step.
type Event struct {
	Kind string // call, ret, cleanup, bogus-cleanup, args, result, mark, ref, note
	ID   string
	Vals []interface{}
	B1   bool // result: cleanup non-nil
	B2   bool // result: error is the injected error of this section
	B3   bool // result: error is nil
	N    int
}

// Section is one injector call made by a driver.
type Section struct {
	Label    string
	Injector string
	Fault    string
	Events   []Event
	Panic    string
}

var (
	Sections []*Section
	cur      *Section
	tok      = 100
	failID   string
	lastErr  *InjErr
	seq      int
)

// InjErr is the error value injected by the fault plan.
type InjErr struct {
	ID  string
	Seq int
}

func (e *InjErr) Error() string { return "injected failure of " + e.ID }

func add(e Event) {
	if cur == nil {
		cur = &Section{Label: "outside"}
		Sections = append(Sections, cur)
	}
	cur.Events = append(cur.Events, e)
}

// Begin opens a section; fault names the provider that must fail ("" = none).
func Begin(label, injector, fault string) {
	cur = &Section{Label: label, Injector: injector, Fault: fault}
	Sections = append(Sections, cur)
	failID = fault
	lastErr = nil
}

// End closes the section.
func End() { cur = nil; failID = "" }

// Panicked records a recovered panic in the current section.
func Panicked(msg string) {
	if cur != nil {
		cur.Panic = msg
	}
}

// Tok returns a fresh token.
func Tok() int { tok++; return tok }

// P returns a pointer to a copy of v.
func P[T any](v T) *T { return &v }

// Itoa formats a token.
func Itoa(n int) string {
	if n == 0 {
		return "0"
	}
	neg := n < 0
	if neg {
		n = -n
	}
	var b [24]byte
	i := len(b)
	for n > 0 {
		i--
		b[i] = byte('0' + n%10)
		n /= 10
	}
	if neg {
		i--
		b[i] = '-'
	}
	return string(b[i:])
}

// Ev is a provider activation.
type Ev struct {
	id   string
	fail bool
	err  *InjErr
}

// Enter records a provider call with its arguments.
func Enter(id string, args ...interface{}) *Ev {
	add(Event{Kind: "call", ID: id, Vals: args})
	e := &Ev{id: id}
	if failID != "" && failID == id {
		e.fail = true
		seq++
		e.err = &InjErr{ID: id, Seq: seq}
		lastErr = e.err
	}
	return e
}

// Fail reports whether this activation must fail.
func (e *Ev) Fail() bool { return e.fail }

// Err is the injected error.
func (e *Ev) Err() error { return e.err }

// Tok returns a fresh token.
func (e *Ev) Tok() int { return Tok() }

// Ret records the provider's result.
func (e *Ev) Ret(v interface{}) { add(Event{Kind: "ret", ID: e.id, Vals: []interface{}{v}}) }

// Cleanup returns the provider's cleanup function.
func (e *Ev) Cleanup() func() {
	id := e.id
	return func() { add(Event{Kind: "cleanup", ID: id}) }
}

// Bogus returns the cleanup handed out together with an error; it must never run.
func (e *Ev) Bogus() func() {
	id := e.id
	return func() { add(Event{Kind: "bogus-cleanup", ID: id}) }
}

// Args records the injector's arguments.
func Args(vals ...interface{}) { add(Event{Kind: "args", Vals: vals}) }

// Result records what the injector returned.
func Result(v interface{}, hasCleanup, cleanupNonNil bool, hasErr bool, err error) {
	e := Event{Kind: "result", Vals: []interface{}{v}, B1: cleanupNonNil, B3: err == nil}
	if err != nil && lastErr != nil {
		if ie, ok := err.(*InjErr); ok && ie == lastErr {
			e.B2 = true
		}
	}
	if hasCleanup {
		e.N |= 1
	}
	if hasErr {
		e.N |= 2
	}
	add(e)
}

// Mark records a marker event.
func Mark(id string) { add(Event{Kind: "mark", ID: id}) }

// Ref records a reference value (e.g. the home-package evaluation of a value expression).
func Ref(id string, v interface{}) { add(Event{Kind: "ref", ID: id, Vals: []interface{}{v}}) }

// Note records a boolean observation made by generated code.
func Note(id string, ok bool) { add(Event{Kind: "note", ID: id, B1: ok}) }
`

// RunnerHelper is the source of the reflection-based fingerprinting shared by
// every generated runner (package main, file tree.go).
const RunnerHelper = `package main

import (
	"encoding/json"
	"fmt"
	"os"
	"reflect"
	"sort"
	"unsafe"

	"example.com/m/trace"
)

type Tree struct {
	K   string   ` + "`json:\"k\"`" + `
	T   string   ` + "`json:\"t,omitempty\"`" + `
	V   string   ` + "`json:\"v,omitempty\"`" + `
	FN  []string ` + "`json:\"fn,omitempty\"`" + `
	F   []*Tree  ` + "`json:\"f,omitempty\"`" + `
	E   []*Tree  ` + "`json:\"e,omitempty\"`" + `
	MK  []*Tree  ` + "`json:\"mk,omitempty\"`" + `
	ID  int      ` + "`json:\"id,omitempty\"`" + `
	FA  []int    ` + "`json:\"fa,omitempty\"`" + `
	To  *Tree    ` + "`json:\"to,omitempty\"`" + `
	Nil bool     ` + "`json:\"nil,omitempty\"`" + `
	Cap int      ` + "`json:\"cap,omitempty\"`" + `
}

type fp struct {
	ids map[uintptr]int
}

func (f *fp) id(p uintptr) int {
	if p == 0 {
		return 0
	}
	if n, ok := f.ids[p]; ok {
		return n
	}
	n := len(f.ids) + 1
	f.ids[p] = n
	return n
}

func (f *fp) tree(v reflect.Value, depth int) *Tree {
	if !v.IsValid() {
		return &Tree{K: "invalid", Nil: true}
	}
	t := &Tree{T: v.Type().String()}
	if depth > 64 {
		t.K = "deep"
		return t
	}
	switch v.Kind() {
	case reflect.Bool:
		t.K, t.V = "bool", fmt.Sprint(v.Bool())
	case reflect.Int, reflect.Int8, reflect.Int16, reflect.Int32, reflect.Int64:
		t.K, t.V = "int", fmt.Sprint(v.Int())
	case reflect.Uint, reflect.Uint8, reflect.Uint16, reflect.Uint32, reflect.Uint64, reflect.Uintptr:
		t.K, t.V = "uint", fmt.Sprint(v.Uint())
	case reflect.Float32, reflect.Float64:
		t.K, t.V = "float", fmt.Sprint(v.Float())
	case reflect.Complex64, reflect.Complex128:
		t.K, t.V = "complex", fmt.Sprint(v.Complex())
	case reflect.String:
		t.K, t.V = "string", v.String()
	case reflect.Struct:
		t.K = "struct"
		for i := 0; i < v.NumField(); i++ {
			t.FN = append(t.FN, v.Type().Field(i).Name)
			t.F = append(t.F, f.tree(v.Field(i), depth+1))
			if v.CanAddr() {
				t.FA = append(t.FA, f.id(v.Field(i).UnsafeAddr()))
			}
		}
	case reflect.Ptr:
		t.K = "ptr"
		if v.IsNil() {
			t.Nil = true
		} else {
			t.ID = f.id(v.Pointer())
			t.To = f.tree(v.Elem(), depth+1)
		}
	case reflect.UnsafePointer:
		t.K = "unsafeptr"
		if v.Pointer() == 0 {
			t.Nil = true
		} else {
			t.ID = f.id(v.Pointer())
		}
	case reflect.Slice:
		t.K = "slice"
		if v.IsNil() {
			t.Nil = true
		} else {
			if v.Len() > 0 {
				t.ID = f.id(v.Pointer())
			}
			t.Cap = v.Cap()
			for i := 0; i < v.Len(); i++ {
				t.E = append(t.E, f.tree(v.Index(i), depth+1))
			}
		}
	case reflect.Array:
		t.K = "array"
		for i := 0; i < v.Len(); i++ {
			t.E = append(t.E, f.tree(v.Index(i), depth+1))
		}
	case reflect.Map:
		t.K = "map"
		if v.IsNil() {
			t.Nil = true
		} else {
			t.ID = f.id(v.Pointer())
			keys := v.MapKeys()
			sort.Slice(keys, func(i, j int) bool { return fmt.Sprint(keys[i]) < fmt.Sprint(keys[j]) })
			for _, k := range keys {
				t.MK = append(t.MK, f.tree(k, depth+1))
				t.E = append(t.E, f.tree(v.MapIndex(k), depth+1))
			}
		}
	case reflect.Chan:
		t.K = "chan"
		if v.IsNil() {
			t.Nil = true
		} else {
			t.ID = f.id(v.Pointer())
		}
	case reflect.Func:
		t.K = "func"
		if v.IsNil() {
			t.Nil = true
		} else if v.Type().NumIn() == 0 && v.Type().NumOut() == 1 && v.CanInterface() {
			var out []reflect.Value
			func() {
				defer func() { recover() }()
				out = v.Call(nil)
			}()
			if len(out) == 1 {
				t.To = f.tree(out[0], depth+1)
			}
		} else if v.Type().NumIn() == 0 && v.Type().NumOut() == 1 {
			// unexported field holding a func: make it callable
			var out []reflect.Value
			func() {
				defer func() { recover() }()
				w := reflect.NewAt(v.Type(), unsafe.Pointer(v.UnsafeAddr())).Elem()
				out = w.Call(nil)
			}()
			if len(out) == 1 {
				t.To = f.tree(out[0], depth+1)
			}
		}
	case reflect.Interface:
		t.K = "iface"
		if v.IsNil() {
			t.Nil = true
		} else {
			t.To = f.tree(v.Elem(), depth+1)
		}
	default:
		t.K = "other"
	}
	return t
}

type outEvent struct {
	Kind string  ` + "`json:\"kind\"`" + `
	ID   string  ` + "`json:\"id,omitempty\"`" + `
	Vals []*Tree ` + "`json:\"vals,omitempty\"`" + `
	B1   bool    ` + "`json:\"b1,omitempty\"`" + `
	B2   bool    ` + "`json:\"b2,omitempty\"`" + `
	B3   bool    ` + "`json:\"b3,omitempty\"`" + `
	N    int     ` + "`json:\"n,omitempty\"`" + `
}

type outSection struct {
	Label    string     ` + "`json:\"label\"`" + `
	Injector string     ` + "`json:\"injector\"`" + `
	Fault    string     ` + "`json:\"fault,omitempty\"`" + `
	Panic    string     ` + "`json:\"panic,omitempty\"`" + `
	Events   []outEvent ` + "`json:\"events\"`" + `
}

type outProg struct {
	Name     string       ` + "`json:\"name\"`" + `
	Panic    string       ` + "`json:\"panic,omitempty\"`" + `
	Sections []outSection ` + "`json:\"sections\"`" + `
}

var enc = json.NewEncoder(os.Stdout)

// runProg runs one program's driver; with command-line arguments only the
// named programs run.
func runProg(name string, drive func()) {
	if len(os.Args) > 1 {
		want := false
		for _, a := range os.Args[1:] {
			if a == name {
				want = true
			}
		}
		if !want {
			return
		}
	}
	trace.Sections = nil
	out := outProg{Name: name}
	func() {
		defer func() {
			if r := recover(); r != nil {
				out.Panic = fmt.Sprint(r)
			}
		}()
		drive()
	}()
	f := &fp{ids: map[uintptr]int{}}
	for _, s := range trace.Sections {
		os := outSection{Label: s.Label, Injector: s.Injector, Fault: s.Fault, Panic: s.Panic}
		for _, e := range s.Events {
			oe := outEvent{Kind: e.Kind, ID: e.ID, B1: e.B1, B2: e.B2, B3: e.B3, N: e.N}
			for _, v := range e.Vals {
				if v == nil {
					oe.Vals = append(oe.Vals, &Tree{K: "iface", Nil: true})
				} else {
					oe.Vals = append(oe.Vals, f.tree(reflect.ValueOf(v), 0))
				}
			}
			os.Events = append(os.Events, oe)
		}
		out.Sections = append(out.Sections, os)
	}
	enc.Encode(out)
}
`
