package eng

// TraceSource is the source of the dependency-free runtime support package
// rendered into every workspace as example.com/m/trace.
const TraceSource = `package trace
`
