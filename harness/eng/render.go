package eng

import (
	"fmt"
	"regexp"
	"sort"
	"strconv"
	"strings"
)

// Renderer turns a Spec into Go source files.
type Renderer struct {
	S *Spec
	M *Model
}

// gofile accumulates one Go source file.
type gofile struct {
	r       *Renderer
	pkg     int
	tag     string
	body    strings.Builder
	imports map[string]string // path -> alias ("" = none)
	dot     map[string]bool
}

var identRE = regexp.MustCompile(`[\pL_][\pL\pN_]*`)

const (
	pkgUnsafe = -1
	pkgTrace  = -2
	pkgWire   = -3
)

func (r *Renderer) newFile(pkg int, tag string) *gofile {
	return &gofile{r: r, pkg: pkg, tag: tag, imports: map[string]string{}}
}

// use records an import and returns the identifier to qualify with.
func (f *gofile) use(p int) string {
	switch p {
	case pkgUnsafe:
		f.imports["unsafe"] = ""
		return "unsafe"
	case pkgTrace:
		f.imports[ModPath+"/trace"] = ""
		return "trace"
	case pkgWire:
		if f.r.S.WireImport == "alias" {
			f.imports["github.com/google/wire"] = "zzw"
			return "zzw"
		}
		f.imports["github.com/google/wire"] = ""
		return "wire"
	}
	path := f.r.S.pkgPath(p)
	if f.pkg == 0 {
		for _, dp := range f.r.S.DotImports {
			if dp == p {
				f.imports[path] = "."
				return ""
			}
		}
	}
	alias := f.r.S.ImportAlias[p]
	f.imports[path] = alias
	if alias != "" {
		return alias
	}
	return f.r.S.Pkgs[p].Name
}

func (f *gofile) p(format string, a ...interface{}) { fmt.Fprintf(&f.body, format, a...) }

// q returns the qualifier prefix ("pkg." or "" for dot-imported packages).
func (f *gofile) q(p int) string {
	if n := f.use(p); n != "" {
		return n + "."
	}
	return ""
}

func (f *gofile) ty(t *Type) string { return GoType(f.r.S, t, f.pkg, f.use) }

func (f *gofile) String() string {
	var b strings.Builder
	if f.tag != "" {
		fmt.Fprintf(&b, "//go:build %s\n\n", f.tag)
	}
	fmt.Fprintf(&b, "package %s\n\n", f.r.S.Pkgs[f.pkg].Name)
	if len(f.imports) > 0 {
		b.WriteString("import (\n")
		for _, p := range SortedKeys(f.imports) {
			if a := f.imports[p]; a != "" {
				fmt.Fprintf(&b, "\t%s %q\n", a, p)
			} else if p == "github.com/google/wire" && f.r.S.WireImport == "raw" {
				fmt.Fprintf(&b, "\t`%s`\n", p)
			} else {
				fmt.Fprintf(&b, "\t%q\n", p)
			}
		}
		b.WriteString(")\n\n")
	}
	b.WriteString(f.body.String())
	return b.String()
}

// Implementer finds a concrete type expression implementing the interface.
func (r *Renderer) Implementer(iface *Type) *Type {
	need := IfaceMethods(r.S, iface)
	if len(need) == 0 {
		return nil
	}
	for i := range r.S.Decls {
		d := &r.S.Decls[i]
		if d.Form == "iface" || d.Form == "alias" || len(d.Methods) == 0 {
			continue
		}
		if Implements(r.S, Named(i), iface) {
			return Named(i)
		}
	}
	for i := range r.S.Decls {
		d := &r.S.Decls[i]
		if d.Form == "iface" || d.Form == "alias" || len(d.Methods) == 0 {
			continue
		}
		if Implements(r.S, Ptr(Named(i)), iface) {
			return Ptr(Named(i))
		}
	}
	return nil
}

// mk renders an expression building a value of type t that carries the
// integer expression tok.  constant selects the restricted form usable inside
// wire.Value (no calls other than conversions); tok must then be a literal.
func (f *gofile) mk(t *Type, tok string, constant bool, depth int) string {
	r := f.r
	if depth > 14 {
		return "*new(" + f.ty(t) + ")"
	}
	switch t.K {
	case "named":
		d := r.S.decl(t.Decl)
		switch d.Form {
		case "alias":
			return f.mk(d.Under, tok, constant, depth+1)
		case "struct":
			var parts []string
			k := 0
			for _, fl := range d.Fields {
				if fl.Name == "Tok" && fl.T.K == "basic" && fl.T.Basic == "int" {
					parts = append(parts, "Tok: "+tok)
					continue
				}
				ft := resolveAlias(r.S, fl.T)
				if ft.K == "tparam" || ft.K == "named" && ft.Decl == t.Decl || fl.Name == "_" {
					continue
				}
				if d.Pkg != f.pkg && !exported(fl.Name) {
					continue
				}
				if IsInterface(r.S, ft) && r.Implementer(ft) == nil && len(IfaceMethods(r.S, ft)) > 0 {
					continue
				}
				if constant && !r.constOK(fl.T) {
					continue
				}
				k++
				parts = append(parts, fmt.Sprintf("%s: %s", fl.Name, f.mk(fl.T, fmt.Sprintf("(%s*10+%d)", tok, k), constant, depth+1)))
			}
			return f.ty(t) + "{" + strings.Join(parts, ", ") + "}"
		case "iface":
			c := r.Implementer(t)
			if c == nil && len(IfaceMethods(r.S, t)) == 0 {
				// an empty interface holds the token itself
				return f.ty(t) + "(" + tok + ")"
			}
			if c == nil {
				return "*new(" + f.ty(t) + ")"
			}
			return f.mk(c, tok, constant, depth+1)
		default: // def
			u := d.Under
			if constant && (u.K == "func" || u.K == "chan" || u.K == "ifacelit") {
				return fmt.Sprintf("%s(nil)", f.ty(t))
			}
			inner := f.mk(u, tok, constant, depth+1)
			return fmt.Sprintf("%s(%s)", f.ty(t), inner)
		}
	case "ptr":
		e := resolveAlias(r.S, t.Elem)
		compositeElem := false
		switch e.K {
		case "slice", "array", "map", "structlit":
			compositeElem = true
		case "named":
			compositeElem = r.S.decl(e.Decl).Form == "struct"
		}
		if compositeElem {
			return "&" + f.mk(t.Elem, tok, constant, depth+1)
		}
		if constant {
			return "(" + f.ty(t) + ")(nil)"
		}
		return fmt.Sprintf("%s.P[%s](%s)", f.use(pkgTrace), f.ty(t.Elem), f.mk(t.Elem, tok, constant, depth+1))
	case "slice":
		return fmt.Sprintf("%s{%s}", f.ty(t), f.mk(t.Elem, tok, constant, depth+1))
	case "array":
		if t.N == 0 {
			return f.ty(t) + "{}"
		}
		return fmt.Sprintf("%s{%s}", f.ty(t), f.mk(t.Elem, tok, constant, depth+1))
	case "map":
		return fmt.Sprintf("%s{\"k\": %s}", f.ty(t), f.mk(t.Elem, tok, constant, depth+1))
	case "chan":
		if constant {
			return "(" + f.ty(t) + ")(nil)"
		}
		return fmt.Sprintf("(%s)(make(chan %s, 1))", f.ty(t), f.ty(t.Elem))
	case "func":
		if constant {
			return "nil"
		}
		if t.Elem == nil {
			return "func() {}"
		}
		return fmt.Sprintf("func() %s { return %s }", f.ty(t.Elem), f.mk(t.Elem, tok, constant, depth+1))
	case "structlit":
		if len(t.Fields) == 0 {
			return f.ty(t) + "{}"
		}
		return fmt.Sprintf("%s{%s: %s}", f.ty(t), t.Fields[0].Name, f.mk(t.Fields[0].T, tok, constant, depth+1))
	case "ifacelit":
		c := r.Implementer(t)
		if c == nil {
			return tok
		}
		return f.mk(c, tok, constant, depth+1)
	case "basic":
		switch t.Basic {
		case "string":
			if constant {
				return strconv.Quote("s" + tok)
			}
			return fmt.Sprintf("%s.Itoa(%s)", f.use(pkgTrace), tok)
		case "bool":
			return fmt.Sprintf("%s%%2 == 0", tok)
		case "int":
			return tok
		case "complex128", "complex64":
			if constant {
				return fmt.Sprintf("%s(%s)", t.Basic, tok)
			}
			return fmt.Sprintf("%s(complex(float64(%s), 0))", t.Basic, tok)
		case "uint8":
			return fmt.Sprintf("uint8((%s)%%200)", tok)
		case "int16":
			return fmt.Sprintf("int16((%s)%%30000)", tok)
		case "int32":
			return fmt.Sprintf("int32((%s)%%1000000007)", tok)
		default:
			return fmt.Sprintf("%s(%s)", t.Basic, tok)
		}
	case "unsafe":
		if constant {
			return f.use(pkgUnsafe) + ".Pointer(nil)"
		}
		return fmt.Sprintf("%s.Pointer(%s.P[int](%s))", f.use(pkgUnsafe), f.use(pkgTrace), tok)
	case "error":
		if constant {
			return "error(nil)"
		}
		return fmt.Sprintf("error(&%s.InjErr{ID: \"value\", Seq: %s})", f.use(pkgTrace), tok)
	}
	return "nil"
}

// constOK reports whether a value of type t can be written inside wire.Value
// without unnamed struct/func/interface type syntax (which Wire refuses).
func (r *Renderer) constOK(t *Type) bool {
	t = resolveAlias(r.S, t)
	switch t.K {
	case "structlit", "ifacelit", "func":
		return false
	case "named":
		if len(t.Args) >= 2 {
			return false // T[A, B]{...} needs an index-list expression, which Wire refuses in values
		}
		if d := r.S.decl(t.Decl); d.Form == "def" {
			return r.constOK(d.Under) // written as N(<underlying literal>)
		}
		return true
	case "ptr", "slice", "array", "map", "chan":
		return r.constOK(t.Elem)
	}
	return true
}

// ConstOK is the exported form of constOK.
func (r *Renderer) ConstOK(t *Type) bool { return r.constOK(t) }

// itemExpr renders a set argument that is an item.
func (f *gofile) itemExpr(i int) string {
	it := &f.r.S.Items[i]
	w := f.use(pkgWire)
	switch it.Kind {
	case "func":
		if it.Pkg == f.pkg {
			return it.Name
		}
		return f.q(it.Pkg) + it.Name
	case "struct":
		if it.Legacy {
			if it.LegacyPtr {
				return "&" + f.ty(it.Out) + "{}"
			}
			return f.ty(it.Out) + "{}"
		}
		args := []string{"new(" + f.ty(it.Out) + ")"}
		if it.Star {
			args = append(args, `"*"`)
		} else {
			for _, n := range it.Fields {
				args = append(args, strconv.Quote(n))
			}
		}
		return w + ".Struct(" + strings.Join(args, ", ") + ")"
	case "value":
		return w + ".Value(" + f.valueExpr(i) + ")"
	case "ivalue":
		return w + ".InterfaceValue(new(" + f.ty(it.Out) + "), " + f.valueExpr(i) + ")"
	case "bind":
		return w + ".Bind(new(" + f.ty(it.Out) + "), new(" + f.ty(it.Conc) + "))"
	case "fields":
		args := []string{"new(" + f.ty(it.Parent) + ")"}
		for _, n := range it.Fields {
			args = append(args, strconv.Quote(n))
		}
		return w + ".FieldsOf(" + strings.Join(args, ", ") + ")"
	}
	return "nil"
}

// valueExpr renders the expression of a value / interface value item.
func (f *gofile) valueExpr(i int) string {
	it := &f.r.S.Items[i]
	if it.Expr != "" {
		for _, p := range it.ExprImports {
			f.use(p)
		}
		return it.Expr
	}
	t := it.Out
	if it.Kind == "ivalue" {
		t = it.Conc
	}
	return f.mk(t, strconv.Itoa(it.Tok), true, 0)
}

func (f *gofile) refExpr(r Ref) string {
	switch {
	case r.Item >= 0:
		return f.itemExpr(r.Item)
	case r.Set >= 0:
		s := &f.r.S.Sets[r.Set]
		if s.Pkg == f.pkg {
			return s.Name
		}
		return f.q(s.Pkg) + s.Name
	default:
		return f.use(pkgWire) + ".NewSet(" + f.refList(r.Inline) + ")"
	}
}

func (f *gofile) refList(rs []Ref) string {
	var parts []string
	for _, r := range rs {
		parts = append(parts, f.refExpr(r))
	}
	return strings.Join(parts, ", ")
}

// ValueHome returns, for every value/ivalue item, the package in which its
// expression is written (the package of the first set or injector listing it).
func (r *Renderer) ValueHome() map[int]int {
	home := map[int]int{}
	var walk func(rs []Ref, pkg int)
	walk = func(rs []Ref, pkg int) {
		for _, x := range rs {
			if x.Item >= 0 {
				k := r.S.Items[x.Item].Kind
				if (k == "value" || k == "ivalue") && !r.S.Items[x.Item].NoRef {
					if _, ok := home[x.Item]; !ok {
						home[x.Item] = pkg
					}
				}
			} else if x.IsInline() {
				walk(x.Inline, pkg)
			}
		}
	}
	for _, s := range r.S.Sets {
		if s.AliasOf < 0 {
			walk(s.Args, s.Pkg)
		}
	}
	for _, in := range r.S.Injectors {
		walk(in.Args, 0)
	}
	return home
}

func sigString(f *gofile, params []Param, variadic bool, results []*Type, named bool, resNames ...string) string {
	var ps []string
	for i, p := range params {
		t := f.ty(p.T)
		if variadic && i == len(params)-1 {
			t = "..." + f.ty(p.T.Elem)
		}
		if named {
			n := p.Name
			if n == "" {
				ps = append(ps, t)
				continue
			}
			ps = append(ps, n+" "+t)
		} else {
			ps = append(ps, t)
		}
	}
	var rs []string
	for i, t := range results {
		if len(resNames) == len(results) {
			rs = append(rs, resNames[i]+" "+f.ty(t))
		} else {
			rs = append(rs, f.ty(t))
		}
	}
	res := ""
	switch {
	case len(rs) == 0:
	case len(rs) == 1 && len(resNames) != 1:
		res = " " + rs[0]
	default:
		res = " (" + strings.Join(rs, ", ") + ")"
	}
	return "(" + strings.Join(ps, ", ") + ")" + res
}

// Files renders the whole program: relative path -> content.
func (r *Renderer) Files() map[string]string {
	s := r.S
	out := map[string]string{}
	path := func(pkg int, name string) string {
		if s.Pkgs[pkg].Dir == "" {
			return name
		}
		return s.Pkgs[pkg].Dir + "/" + name
	}
	home := r.ValueHome()
	for pi := range s.Pkgs {
		// --- types
		f := r.newFile(pi, "")
		n := 0
		for di := range s.Decls {
			d := &s.Decls[di]
			if d.Pkg != pi {
				continue
			}
			n++
			switch d.Form {
			case "struct":
				tp := ""
				if d.TParams > 0 {
					var ps []string
					for k := 0; k < d.TParams; k++ {
						ps = append(ps, fmt.Sprintf("P%d", k))
					}
					tp = "[" + strings.Join(ps, ", ") + " any]"
				}
				f.p("type %s%s struct {\n", d.Name, tp)
				for _, fl := range d.Fields {
					tag := ""
					if fl.Tag != "" {
						tag = " `" + fl.Tag + "`"
					}
					if fl.Embedded {
						f.p("\t%s%s\n", f.ty(fl.T), tag)
					} else {
						f.p("\t%s %s%s\n", fl.Name, f.ty(fl.T), tag)
					}
				}
				f.p("}\n\n")
			case "iface":
				f.p("type %s interface {\n", d.Name)
				for _, e := range d.Embeds {
					f.p("\t%s\n", f.ty(Named(e)))
				}
				for _, m := range d.IMeth {
					f.p("\t%s() int\n", m)
				}
				f.p("}\n\n")
			case "alias":
				f.p("type %s = %s\n\n", d.Name, f.ty(d.Under))
			default:
				f.p("type %s %s\n\n", d.Name, f.ty(d.Under))
			}
			for _, m := range d.Methods {
				recv := d.Name
				if d.TParams > 0 {
					var ps []string
					for k := 0; k < d.TParams; k++ {
						ps = append(ps, fmt.Sprintf("P%d", k))
					}
					recv += "[" + strings.Join(ps, ", ") + "]"
				}
				if m.PtrRecv {
					recv = "*" + recv
				}
				f.p("func (%s) %s() int { return %d }\n\n", recv, m.Name, di)
			}
		}
		if n > 0 {
			out[path(pi, "types.go")] = f.String()
		}
		// --- provider functions
		f = r.newFile(pi, "")
		n = 0
		for ii := range s.Items {
			it := &s.Items[ii]
			if it.Kind != "func" || it.Pkg != pi {
				continue
			}
			n++
			r.renderProvider(f, ii)
		}
		// reference values for value items whose home is this package
		for _, ii := range sortedIntKeys(home) {
			if home[ii] != pi {
				continue
			}
			n++
			f.p("var ZzRefV%d = %s\n\n", ii, f.valueExpr(ii))
		}
		if n > 0 {
			out[path(pi, "prov.go")] = f.String()
		}
		// --- sets
		if !(pi == 0 && s.SetsInInject) {
			f = r.newFile(pi, "")
			if r.renderSets(f, pi, func(si int) bool { return true }) > 0 {
				out[path(pi, "sets.go")] = f.String()
			}
		}
		if n == 0 && len(out) == 0 {
			continue
		}
	}
	// make sure every package directory has at least one file
	for pi := range s.Pkgs {
		has := false
		pre := s.Pkgs[pi].Dir + "/"
		for k := range out {
			if s.Pkgs[pi].Dir == "" && !strings.Contains(k, "/") || s.Pkgs[pi].Dir != "" && strings.HasPrefix(k, pre) {
				has = true
			}
		}
		if !has {
			out[path(pi, "doc.go")] = "package " + s.Pkgs[pi].Name + "\n"
		}
	}
	// --- injector templates (root package)
	files := map[int][]int{}
	for ii := range s.Injectors {
		files[s.Injectors[ii].File] = append(files[s.Injectors[ii].File], ii)
	}
	for _, fi := range sortedIntKeys2(files) {
		f := r.newFile(0, "wireinject")
		if c := s.InjConstraints[fi]; c != "" {
			f.tag = c
		}
		for _, bp := range s.Blank {
			f.imports[bp] = "_"
		}
		if s.SetsInInject {
			nf := len(files)
			pos := 0
			for k, x := range sortedIntKeys2(files) {
				if x == fi {
					pos = k
				}
			}
			r.renderSets(f, 0, func(si int) bool { return si%nf == pos })
		}
		for _, ii := range files[fi] {
			in := &s.Injectors[ii]
			if in.Doc != "" {
				f.p("// %s\n", in.Doc)
			}
			build := f.use(pkgWire) + ".Build(" + f.refList(in.Args) + ")"
			// result names are in scope in the body: they are dropped when they
			// would shadow something the template refers to
			resNames := in.ResNames
			if len(resNames) > 0 {
				text := "panic new " + build + " " + sigString(f, in.Params, in.Variadic, r.M.InjResults(in), true)
				for _, id := range identRE.FindAllString(text, -1) {
					for _, rn := range resNames {
						if rn == id && rn != "_" {
							resNames = nil
						}
					}
				}
			}
			f.p("func %s%s {\n", in.Name, sigString(f, in.Params, in.Variadic, r.M.InjResults(in), true, resNames...))
			if in.Panic {
				f.p("\tpanic(%s)\n", build)
			} else {
				f.p("\t%s\n", build)
				var zs []string
				for _, t := range r.M.InjResults(in) {
					zs = append(zs, "*new("+f.ty(t)+")")
				}
				f.p("\treturn %s\n", strings.Join(zs, ", "))
			}
			f.p("}\n\n")
		}
		if s.InjExtra != "" && fi == sortedIntKeys2(files)[0] {
			for ip, alias := range s.InjExtraImports {
				f.imports[ip] = alias
			}
			f.p("%s\n", s.InjExtra)
		}
		out[fmt.Sprintf("inject%d.go", fi)] = f.String()
	}
	if s.Extra != "" {
		out["extra.go"] = s.Extra
	}
	for pi, src := range s.PkgExtra {
		var b strings.Builder
		fmt.Fprintf(&b, "package %s\n\n", s.Pkgs[pi].Name)
		for _, im := range s.PkgExtraImports[pi] {
			fmt.Fprintf(&b, "import %s\n", im)
		}
		b.WriteString("\n" + src)
		out[path(pi, "extra_decls.go")] = b.String()
	}
	if !s.NoTrace {
		out["zz_drive.go"] = r.renderDriver(home)
	}
	return out
}

// renderSets writes the set variables of package pi selected by pick into f
// and returns how many were written.
func (r *Renderer) renderSets(f *gofile, pi int, pick func(si int) bool) int {
	s := r.S
	n := 0
	var jn, jv []string
	for si := range s.Sets {
		st := &s.Sets[si]
		if st.Pkg != pi || !pick(si) {
			continue
		}
		n++
		var rhs string
		if st.AliasOf >= 0 {
			rhs = f.refExpr(RSet(st.AliasOf))
		} else {
			rhs = fmt.Sprintf("%s.NewSet(%s)", f.use(pkgWire), f.refList(st.Args))
		}
		if s.JointSets {
			jn = append(jn, st.Name)
			jv = append(jv, rhs)
			continue
		}
		f.p("var %s = %s\n\n", st.Name, rhs)
	}
	if len(jn) > 0 {
		f.p("var %s = %s\n\n", strings.Join(jn, ", "), strings.Join(jv, ",\n\t"))
	}
	return n
}

func sortedIntKeys(m map[int]int) []int {
	var ks []int
	for k := range m {
		ks = append(ks, k)
	}
	sort.Ints(ks)
	return ks
}

func sortedIntKeys2(m map[int][]int) []int {
	var ks []int
	for k := range m {
		ks = append(ks, k)
	}
	sort.Ints(ks)
	return ks
}

func (r *Renderer) renderProvider(f *gofile, ii int) {
	it := &r.S.Items[ii]
	var params []Param
	var names []string
	for i, p := range it.Params {
		n := fmt.Sprintf("zzA%d", i)
		params = append(params, Param{Name: n, T: p})
		names = append(names, n)
	}
	results := r.M.FuncResults(it)
	f.p("func %s%s {\n", it.Name, sigString(f, params, it.Variadic, results, true))
	out, hasCl, hasErr, bad := r.M.classifyResults(results)
	if bad != "" {
		var zs []string
		for _, t := range results {
			zs = append(zs, "*new("+f.ty(t)+")")
		}
		if len(zs) > 0 {
			f.p("\treturn %s\n", strings.Join(zs, ", "))
		}
		f.p("}\n\n")
		return
	}
	if r.S.NoTrace {
		f.p("\tvar zzR %s = %s\n\treturn zzR", f.ty(out), f.mk(out, strconv.Itoa(100+ii), true, 0))
		if hasCl {
			f.p(", func() {}")
		}
		if hasErr {
			f.p(", nil")
		}
		f.p("\n}\n\n")
		return
	}
	tr := f.use(pkgTrace)
	f.p("\tzzEv := %s.Enter(%q%s)\n", tr, ItemID(ii), prefixEach(names))
	f.p("\tif zzEv.Fail() {\n\t\tvar zzZ %s\n\t\treturn zzZ", f.ty(out))
	if hasCl {
		f.p(", zzEv.Bogus()")
	}
	if hasErr {
		f.p(", zzEv.Err()")
	}
	f.p("\n\t}\n")
	f.p("\tzzTok := zzEv.Tok()\n\t_ = zzTok\n")
	f.p("\tvar zzR %s = %s\n", f.ty(out), f.mk(out, "zzTok", false, 0))
	f.p("\tzzEv.Ret(zzR)\n\treturn zzR")
	if hasCl {
		f.p(", zzEv.Cleanup()")
	}
	if hasErr {
		f.p(", nil")
	}
	f.p("\n}\n\n")
}

func prefixEach(names []string) string {
	var b strings.Builder
	for _, n := range names {
		b.WriteString(", ")
		b.WriteString(n)
	}
	return b.String()
}

// renderDriver renders zz_drive.go of the root package.
func (r *Renderer) renderDriver(home map[int]int) string {
	s := r.S
	f := r.newFile(0, "")
	tr := f.use(pkgTrace)
	for ii := range s.Injectors {
		in := &s.Injectors[ii]
		f.p("var _ func%s = %s\n", sigString(f, in.Params, in.Variadic, r.M.InjResults(in), false), in.Name)
	}
	f.p("\n// ZzDrive runs the plan.\nfunc ZzDrive() {\n")
	for _, ii := range sortedIntKeys(home) {
		ref := fmt.Sprintf("ZzRefV%d", ii)
		if home[ii] != 0 {
			ref = f.q(home[ii]) + ref
		}
		f.p("\t%s.Ref(%q, %s)\n", tr, ItemID(ii), ref)
	}
	for ri := range s.Plan {
		f.p("\tzzRun%d()\n", ri)
	}
	f.p("}\n\n")
	for ri, run := range s.Plan {
		in := &s.Injectors[run.Inj]
		fault := ""
		if run.Fault >= 0 {
			fault = ItemID(run.Fault)
		}
		f.p("func zzRun%d() {\n", ri)
		f.p("\tdefer func() {\n\t\tif zzRec := recover(); zzRec != nil {\n\t\t\t%s.Panicked(\"panic\")\n\t\t\t%s.End()\n\t\t}\n\t}()\n", tr, tr)
		f.p("\t%s.Begin(%q, %q, %q)\n", tr, fmt.Sprintf("run%d", ri), in.Name, fault)
		var args []string
		for pi, p := range in.Params {
			an := fmt.Sprintf("zzA%d", pi)
			if run.Zero {
				f.p("\tvar %s %s\n", an, f.ty(p.T))
			} else {
				f.p("\tzzTk%d := %s.Tok()\n\t_ = zzTk%d\n", pi, tr, pi)
				f.p("\tvar %s %s = %s\n", an, f.ty(p.T), f.mk(p.T, fmt.Sprintf("zzTk%d", pi), false, 0))
			}
			if in.Variadic && pi == len(in.Params)-1 {
				args = append(args, an+"...")
			} else {
				args = append(args, an)
			}
		}
		var plain []string
		for pi := range in.Params {
			plain = append(plain, fmt.Sprintf("zzA%d", pi))
		}
		f.p("\t%s.Args(%s)\n", tr, strings.Join(plain, ", "))
		res := r.M.InjResults(in)
		_, hasCl, hasErr, bad := r.M.classifyResults(res)
		if bad != "" {
			f.p("\t%s.End()\n}\n\n", tr)
			continue
		}
		lhs := []string{"zzR"}
		if hasCl {
			lhs = append(lhs, "zzCl")
		}
		if hasErr {
			lhs = append(lhs, "zzErr")
		}
		f.p("\t%s := %s(%s)\n", strings.Join(lhs, ", "), in.Name, strings.Join(args, ", "))
		clExpr, errExpr := "false", "nil"
		if hasCl {
			clExpr = "zzCl != nil"
		}
		if hasErr {
			errExpr = "zzErr"
		}
		f.p("\t%s.Result(zzR, %v, %s, %v, %s)\n", tr, hasCl, clExpr, hasErr, errExpr)
		f.p("\t%s.Mark(\"caller-cleanup\")\n", tr)
		if hasCl {
			f.p("\tif zzCl != nil {\n\t\tzzCl()\n\t}\n")
		}
		f.p("\t%s.End()\n}\n\n", tr)
	}
	return f.String()
}
