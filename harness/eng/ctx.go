package eng

import (
	"encoding/json"
	"flag"
	"fmt"
	"os"
	"path/filepath"
	"sort"
	"strings"
	"sync"
	"testing"
	"time"

	"pgregory.net/rapid"
)

// Violation is one falsified case.
type Violation struct {
	Kind   string `json:"kind"`
	Msg    string `json:"msg"`
	Replay string `json:"replay"`
}

// ShardResult is what one shard (child process) reports.
type ShardResult struct {
	Evaluations  int               `json:"evaluations"`
	Nontrivial   map[string]bool   `json:"nontrivial"`
	Classes      map[string]int    `json:"classes"`
	Samples      []json.RawMessage `json:"samples"`
	Excluded     map[string]int    `json:"excluded"`
	GenBugs      []string          `json:"genbugs"`
	Violations   []Violation       `json:"violations"`
	Known        []string          `json:"known"`
	Inconclusive []string          `json:"inconclusive"`
	Exhaustive   bool              `json:"exhaustive"`
	Notes        map[string]string `json:"notes"`
}

func newShardResult() *ShardResult {
	return &ShardResult{Nontrivial: map[string]bool{}, Classes: map[string]int{}, Excluded: map[string]int{}, Notes: map[string]string{}}
}

// Ctx is handed to the property code running inside one shard.
type Ctx struct {
	Prop    string
	Tier    string
	Seed    uint64 // shard seed (never 0)
	Shard   int
	NShards int
	Env     *Env
	Dir     string // scratch directory of this shard
	Res     *ShardResult
	Replay  bool // true when re-running a saved case
	mu      sync.Mutex
	wsN     int
}

// Thorough reports whether the thorough tier was requested.
func (c *Ctx) Thorough() bool { return c.Tier == "thorough" }

// Pick returns q for the quick tier and t for the thorough tier.
func (c *Ctx) Pick(q, t int) int {
	if c.Thorough() {
		return t
	}
	return q
}

// NewWorkDir returns a fresh empty directory below the shard's scratch dir.
func (c *Ctx) NewWorkDir(prefix string) string {
	c.mu.Lock()
	c.wsN++
	n := c.wsN
	c.mu.Unlock()
	d := filepath.Join(c.Dir, fmt.Sprintf("%s%04d", prefix, n))
	os.MkdirAll(d, 0o777)
	return d
}

// Eval counts evaluated cases.
func (c *Ctx) Eval(n int) { c.mu.Lock(); c.Res.Evaluations += n; c.mu.Unlock() }

// Nontrivial records a distinct non-trivial case by hash.
func (c *Ctx) Nontrivial(hash string) { c.mu.Lock(); c.Res.Nontrivial[hash] = true; c.mu.Unlock() }

// Class bumps a histogram cell.
func (c *Ctx) Class(name string) { c.mu.Lock(); c.Res.Classes[name]++; c.mu.Unlock() }

// Excluded counts a generated case kept out of the judged stream.
func (c *Ctx) Excluded(why string) { c.mu.Lock(); c.Res.Excluded[why]++; c.mu.Unlock() }

// GenBug records a generator defect (the rendered program was not what the
// generator promised); such cases are never judged.
func (c *Ctx) GenBug(note string) {
	c.mu.Lock()
	if len(c.Res.GenBugs) < 50 {
		c.Res.GenBugs = append(c.Res.GenBugs, note)
	} else {
		c.Res.GenBugs[49] = "(more)"
	}
	c.mu.Unlock()
}

// Inconclusive records infrastructure trouble.
func (c *Ctx) Inconclusive(note string) {
	c.mu.Lock()
	c.Res.Inconclusive = append(c.Res.Inconclusive, note)
	c.mu.Unlock()
}

// Sample stores up to five example cases.
func (c *Ctx) Sample(v interface{}) {
	c.mu.Lock()
	defer c.mu.Unlock()
	if len(c.Res.Samples) >= 5 {
		return
	}
	b, err := json.Marshal(v)
	if err == nil {
		c.Res.Samples = append(c.Res.Samples, b)
	}
}

// ReplayFile is the on-disk form of a failing (or witness) case.
type ReplayFile struct {
	Property string          `json:"property"`
	Kind     string          `json:"kind"`
	Msg      string          `json:"msg,omitempty"`
	Seed     uint64          `json:"seed,omitempty"`
	Tier     string          `json:"tier,omitempty"`
	Case     json.RawMessage `json:"case"`
}

// Violation records a falsified case and writes its replay file.
func (c *Ctx) Violation(kind, msg string, cse interface{}) {
	b, err := json.MarshalIndent(cse, "", " ")
	if err != nil {
		b = []byte(fmt.Sprintf("%q", fmt.Sprint(cse)))
	}
	path := ""
	if !c.Replay {
		rf := ReplayFile{Property: c.Prop, Kind: kind, Msg: msg, Seed: c.Seed, Tier: c.Tier, Case: b}
		out, _ := json.MarshalIndent(rf, "", " ")
		dir := filepath.Join(OutDir(), "replays")
		os.MkdirAll(dir, 0o777)
		path = filepath.Join(dir, fmt.Sprintf("%s-%s.json", c.Prop, HashString(kind+string(b))))
		os.WriteFile(path, out, 0o666)
	}
	c.mu.Lock()
	c.Res.Violations = append(c.Res.Violations, Violation{Kind: kind, Msg: msg, Replay: path})
	c.mu.Unlock()
}

// Known records that a listed finding still reproduces.
func (c *Ctx) Known(line string) { c.mu.Lock(); c.Res.Known = append(c.Res.Known, line); c.mu.Unlock() }

// ---------------------------------------------------------------------------
// rapid glue

type failNow struct{}

// rtb is a rapid.TB that records failure instead of aborting a Go test.
type rtb struct {
	mu     sync.Mutex
	name   string
	failed bool
	log    strings.Builder
}

func (t *rtb) Helper()      {}
func (t *rtb) Name() string { return t.name }
func (t *rtb) Logf(f string, a ...any) {
	t.mu.Lock()
	if t.log.Len() < 1<<20 {
		fmt.Fprintf(&t.log, f+"\n", a...)
	}
	t.mu.Unlock()
}
func (t *rtb) Log(a ...any)              { t.Logf("%s", fmt.Sprint(a...)) }
func (t *rtb) Skipf(f string, a ...any)  { panic("skip outside rapid") }
func (t *rtb) Skip(a ...any)             { panic("skip outside rapid") }
func (t *rtb) SkipNow()                  { panic("skip outside rapid") }
func (t *rtb) Errorf(f string, a ...any) { t.Logf(f, a...); t.Fail() }
func (t *rtb) Error(a ...any)            { t.Log(a...); t.Fail() }
func (t *rtb) Fatalf(f string, a ...any) { t.Logf(f, a...); t.FailNow() }
func (t *rtb) Fatal(a ...any)            { t.Log(a...); t.FailNow() }
func (t *rtb) FailNow()                  { t.Fail(); panic(failNow{}) }
func (t *rtb) Fail()                     { t.mu.Lock(); t.failed = true; t.mu.Unlock() }
func (t *rtb) Failed() bool              { t.mu.Lock(); defer t.mu.Unlock(); return t.failed }

var rapidMu sync.Mutex
var rapidInit sync.Once

// RapidCheck runs rapid.Check with the given number of cases and seed and
// reports whether the property was falsified, together with rapid's log.
func RapidCheck(name string, checks int, seed uint64, shrink time.Duration, prop func(*rapid.T)) (failed bool, log string) {
	rapidMu.Lock()
	defer rapidMu.Unlock()
	rapidInit.Do(func() {
		testing.Init()
		flag.CommandLine.Parse(nil)
	})
	if seed == 0 {
		seed = 0x9e3779b97f4a7c15
	}
	flag.Set("rapid.checks", fmt.Sprint(checks))
	flag.Set("rapid.seed", fmt.Sprint(seed))
	flag.Set("rapid.nofailfile", "true")
	flag.Set("rapid.shrinktime", shrink.String())
	tb := &rtb{name: name}
	func() {
		defer func() {
			if r := recover(); r != nil {
				if _, ok := r.(failNow); !ok {
					panic(r)
				}
			}
		}()
		rapid.Check(tb, prop)
	}()
	return tb.failed, tb.log.String()
}

// Fail is the verdict of an oracle on one case: Kind is a constant string per
// violation kind (rapid only accepts shrink candidates failing with the same
// message), Msg carries the details.
type Fail struct {
	Kind string
	Msg  string
}

// Failf builds a Fail.
func Failf(kind, format string, a ...interface{}) *Fail {
	return &Fail{Kind: kind, Msg: fmt.Sprintf(format, a...)}
}

// Batched runs a property whose cases are evaluated in batches.  The same
// rapid check is run twice with the same seed: the first pass only collects the
// generated cases, which are then evaluated together; the second pass judges
// them from the cache, and rapid shrinks the first failing case, evaluating
// shrink candidates one at a time.
func Batched[C any, O any](c *Ctx, name string, checks int, shrink time.Duration,
	draw func(*rapid.T) C, key func(C) string,
	eval func([]C) []O, judge func(C, O) *Fail) {

	var cases []C
	seen := map[string]bool{}
	failed, log := RapidCheck(name, checks, c.Seed, shrink, func(t *rapid.T) {
		cs := draw(t)
		k := key(cs)
		if !seen[k] {
			seen[k] = true
			cases = append(cases, cs)
		}
	})
	if failed {
		c.Inconclusive("generator failed in collect pass: " + tail(log, 2000))
		return
	}
	cache := map[string]O{}
	if len(cases) > 0 {
		obs := eval(cases)
		if len(obs) != len(cases) {
			c.Inconclusive(fmt.Sprintf("batch evaluation returned %d observations for %d cases", len(obs), len(cases)))
			return
		}
		for i, cs := range cases {
			cache[key(cs)] = obs[i]
		}
	}
	type lastT struct {
		cs C
		f  *Fail
	}
	var last *lastT
	failed, log = RapidCheck(name, checks, c.Seed, shrink, func(t *rapid.T) {
		cs := draw(t)
		k := key(cs)
		o, ok := cache[k]
		if !ok {
			o = eval([]C{cs})[0]
			cache[k] = o
		}
		if f := judge(cs, o); f != nil {
			last = &lastT{cs, f}
			t.Fatalf("%s", f.Kind)
		}
	})
	if failed {
		if last == nil {
			c.Inconclusive("rapid failed without an oracle verdict: " + tail(log, 2000))
			return
		}
		c.Violation(last.f.Kind, last.f.Msg, last.cs)
	}
}

func tail(s string, n int) string {
	if len(s) <= n {
		return s
	}
	return "…" + s[len(s)-n:]
}

// Parallel runs fn(i) for i in [0,n) on up to par goroutines.
func Parallel(n, par int, fn func(i int)) {
	if par < 1 {
		par = 1
	}
	var wg sync.WaitGroup
	ch := make(chan int)
	for w := 0; w < par && w < n; w++ {
		wg.Add(1)
		go func() {
			defer wg.Done()
			for i := range ch {
				fn(i)
			}
		}()
	}
	for i := 0; i < n; i++ {
		ch <- i
	}
	close(ch)
	wg.Wait()
}

// SortedKeys returns the sorted keys of a string-keyed map.
func SortedKeys[V any](m map[string]V) []string {
	ks := make([]string, 0, len(m))
	for k := range m {
		ks = append(ks, k)
	}
	sort.Strings(ks)
	return ks
}
