package eng

import (
	"fmt"
	"strings"
)

// secView is a parsed driver section.
type secView struct {
	sec     *Section
	args    []*Tree
	calls   map[string][]*Event // id -> call events
	rets    map[string]*Tree
	result  *Event
	order   []string // call ids in order
	markIdx int
}

func viewOf(sec *Section) *secView {
	v := &secView{sec: sec, calls: map[string][]*Event{}, rets: map[string]*Tree{}, markIdx: -1}
	for i := range sec.Events {
		e := &sec.Events[i]
		switch e.Kind {
		case "args":
			if v.args == nil {
				v.args = e.Vals
			}
		case "call":
			v.calls[e.ID] = append(v.calls[e.ID], e)
			v.order = append(v.order, e.ID)
		case "ret":
			if len(e.Vals) == 1 {
				v.rets[e.ID] = e.Vals[0]
			}
		case "result":
			if v.result == nil {
				v.result = e
			}
		case "mark":
			if e.ID == "caller-cleanup" && v.markIdx < 0 {
				v.markIdx = i
			}
		}
	}
	return v
}

// Refs extracts the reference values recorded by the driver (section "outside").
func Refs(run *ProgRun) map[string]*Tree {
	out := map[string]*Tree{}
	if run == nil {
		return out
	}
	for _, s := range run.Sections {
		for _, e := range s.Events {
			if e.Kind == "ref" && len(e.Vals) == 1 {
				out[e.ID] = e.Vals[0]
			}
		}
	}
	return out
}

// wiring evaluates the model's designated sources over one observed section.
type wiring struct {
	m    *Model
	in   *Injector
	v    *Verdict
	sv   *secView
	refs map[string]*Tree
	memo map[string]*Pat
	obs  map[string][]*Tree
	errs []string
}

func (w *wiring) pat(key string) *Pat {
	if p, ok := w.memo[key]; ok {
		return p
	}
	w.memo[key] = &Pat{Kind: "any"} // recursion guard
	e, ok := w.v.Set.Map[key]
	var p *Pat
	switch {
	case !ok:
		w.errs = append(w.errs, "no source for "+key)
		p = &Pat{Kind: "any"}
	default:
		s := e.Src
		switch s.Kind {
		case "arg":
			if s.Arg < len(w.sv.args) {
				p = &Pat{Kind: "exact", Tree: w.sv.args[s.Arg]}
			} else {
				p = &Pat{Kind: "any"}
				w.errs = append(w.errs, "driver recorded no argument "+fmt.Sprint(s.Arg))
			}
		case "bind":
			p = w.pat(s.ConcKey)
		case "func":
			if r, ok := w.sv.rets[ItemID(s.Item)]; ok {
				p = &Pat{Kind: "exact", Tree: r}
			} else {
				p = &Pat{Kind: "any"}
				w.errs = append(w.errs, fmt.Sprintf("provider %s (source of %s) did not run", ItemID(s.Item), key))
			}
		case "value", "ivalue":
			if r, ok := w.refs[ItemID(s.Item)]; ok {
				p = &Pat{Kind: "loose", Tree: r}
			} else {
				p = &Pat{Kind: "any"}
			}
		case "struct":
			it := &w.m.S.Items[s.Item]
			p = &Pat{Kind: "struct", Ptr: s.StructPtr, Fields: map[string]*Pat{}}
			for _, f := range w.m.StructInputs(it) {
				p.Fields[f.Name] = w.pat(w.m.K(f.T))
			}
		case "field":
			it := &w.m.S.Items[s.Item]
			pp := w.pat(w.m.K(it.Parent))
			fp := pp.FieldPat(s.FieldName)
			if s.FieldPtr {
				p = &Pat{Kind: "addr", Sub: fp}
			} else {
				p = fp
			}
		default:
			p = &Pat{Kind: "any"}
		}
	}
	w.memo[key] = p
	return p
}

func (w *wiring) check(key string, got *Tree, where string) {
	p := w.pat(key)
	if ok, why := p.Match(got); !ok {
		w.errs = append(w.errs, fmt.Sprintf("%s (type %s): %s", where, key, why))
	}
	w.obs[key] = append(w.obs[key], got.Unbox())
}

// CheckWiring verifies a fault-free section of injector inj against the
// designated sources of the reference model (property C02): every provider
// parameter and the result carry the value of their designated source, every
// needed provider ran exactly once and nothing else ran.
func CheckWiring(m *Model, inj int, v *Verdict, sec *Section, refs map[string]*Tree) []string {
	sv := viewOf(sec)
	w := &wiring{m: m, in: &m.S.Injectors[inj], v: v, sv: sv, refs: refs, memo: map[string]*Pat{}, obs: map[string][]*Tree{}}
	if sec.Panic != "" {
		return []string{"injector call panicked"}
	}
	want := map[string]bool{}
	for _, it := range v.FuncItems {
		want[ItemID(it)] = true
	}
	for id, cs := range sv.calls {
		if !want[id] {
			w.errs = append(w.errs, fmt.Sprintf("provider %s was called although the result does not depend on it", id))
		}
		if len(cs) > 1 {
			w.errs = append(w.errs, fmt.Sprintf("provider %s was called %d times", id, len(cs)))
		}
	}
	for id := range want {
		if len(sv.calls[id]) == 0 {
			w.errs = append(w.errs, fmt.Sprintf("needed provider %s was not called", id))
		}
	}
	for _, itx := range v.FuncItems {
		it := &m.S.Items[itx]
		cs := sv.calls[ItemID(itx)]
		if len(cs) == 0 {
			continue
		}
		c := cs[0]
		if len(c.Vals) != len(it.Params) {
			w.errs = append(w.errs, fmt.Sprintf("provider %s recorded %d arguments, has %d parameters", ItemID(itx), len(c.Vals), len(it.Params)))
			continue
		}
		for j, p := range it.Params {
			w.check(m.K(p), c.Vals[j], fmt.Sprintf("parameter %d of %s", j, it.Name))
		}
	}
	if sv.result == nil || len(sv.result.Vals) != 1 {
		w.errs = append(w.errs, "no result recorded")
	} else {
		out, _, _, _ := m.classifyResults(m.InjResults(w.in))
		w.check(m.K(out), sv.result.Vals[0], "injector result")
		if sv.result.N&2 != 0 && !sv.result.B3 {
			w.errs = append(w.errs, "injector returned a non-nil error without any injected failure")
		}
	}
	// a pointer-to-field must alias the field inside the provided struct
	for k, ts := range w.obs {
		e, ok := v.Set.Map[k]
		if !ok || e.Src.Kind != "field" || !e.Src.FieldPtr || len(ts) == 0 {
			continue
		}
		pk := m.K(m.S.Items[e.Src.Item].Parent)
		ps := w.obs[pk]
		if len(ps) == 0 {
			continue
		}
		st := ps[0].Deref()
		if st == nil || st.K != "struct" || len(st.FA) != len(st.FN) {
			continue
		}
		for i, n := range st.FN {
			if n == e.Src.FieldName && ts[0].ID != st.FA[i] {
				w.errs = append(w.errs, fmt.Sprintf("the provided pointer to field %s does not alias the field inside the provided struct (pointer id %d, field address id %d)", n, ts[0].ID, st.FA[i]))
			}
		}
	}
	// one instance per type: every consumer of a type sees the very same value
	for k, ts := range w.obs {
		for i := 1; i < len(ts); i++ {
			if !ts[0].Equal(ts[i], false) {
				w.errs = append(w.errs, fmt.Sprintf("consumers of %s received different instances: %s vs %s", k, ts[0], ts[i]))
				break
			}
		}
	}
	return w.errs
}

// CheckFault verifies a section in which provider fault was made to fail
// (property C03).
func CheckFault(m *Model, inj int, v *Verdict, sec *Section) []string {
	var errs []string
	if sec.Panic != "" {
		return []string{"injector call panicked"}
	}
	in := &m.S.Injectors[inj]
	_, hasCl, _, _ := m.classifyResults(m.InjResults(in))
	clItem := map[string]bool{}
	for _, it := range v.ClItems {
		clItem[ItemID(it)] = true
	}
	needed := map[string]bool{}
	for _, it := range v.FuncItems {
		needed[ItemID(it)] = true
	}
	phase := 0 // 0 calls, 1 cleanups, 2 after result, 3 after mark
	var succeeded []string
	var cleaned []string
	called := map[string]int{}
	failedSeen := false
	var result *Event
	for i := range sec.Events {
		e := &sec.Events[i]
		switch e.Kind {
		case "args", "ref", "note":
		case "call":
			called[e.ID]++
			if !needed[e.ID] {
				errs = append(errs, "provider "+e.ID+" called although the result does not depend on it")
			}
			if failedSeen {
				errs = append(errs, "provider "+e.ID+" was called after "+sec.Fault+" had failed")
			}
			if phase != 0 {
				errs = append(errs, "provider "+e.ID+" called after unwinding started")
			}
			if e.ID == sec.Fault {
				failedSeen = true
			}
		case "ret":
			succeeded = append(succeeded, e.ID)
		case "cleanup":
			if phase == 0 {
				phase = 1
			}
			if phase >= 2 {
				errs = append(errs, "cleanup of "+e.ID+" ran after the injector returned")
			}
			cleaned = append(cleaned, e.ID)
		case "bogus-cleanup":
			errs = append(errs, "the cleanup returned by the failing provider "+e.ID+" was called")
		case "result":
			phase = 2
			result = e
		case "mark":
			phase = 3
		}
	}
	if !failedSeen {
		errs = append(errs, "the provider to fail ("+sec.Fault+") was never called")
		return errs
	}
	for id, n := range called {
		if n > 1 {
			errs = append(errs, fmt.Sprintf("provider %s called %d times", id, n))
		}
	}
	var wantClean []string
	for i := len(succeeded) - 1; i >= 0; i-- {
		if clItem[succeeded[i]] {
			wantClean = append(wantClean, succeeded[i])
		}
	}
	if strings.Join(wantClean, ",") != strings.Join(cleaned, ",") {
		errs = append(errs, fmt.Sprintf("cleanups on failure: want [%s] (reverse acquisition order, each once), got [%s]", strings.Join(wantClean, ","), strings.Join(cleaned, ",")))
	}
	if result == nil {
		errs = append(errs, "no result recorded")
		return errs
	}
	if len(result.Vals) == 1 {
		if r := result.Vals[0]; IsInterface(m.S, in.Out) {
			// the zero value of an interface type is the nil interface, not an
			// interface holding the zero value of some concrete type
			if !(r == nil || r.K == "iface" && r.Nil) {
				errs = append(errs, "result is not the zero value (a nil interface): "+r.String())
			}
		} else if !r.Unbox().IsZero() {
			errs = append(errs, "result is not the zero value: "+r.String())
		}
	}
	if hasCl && result.B1 {
		errs = append(errs, "a non-nil cleanup function was returned together with the error")
	}
	if result.B3 {
		errs = append(errs, "the injector returned a nil error although "+sec.Fault+" failed")
	} else if !result.B2 {
		errs = append(errs, "the injector returned a different error value than the one "+sec.Fault+" returned")
	}
	return errs
}

// CheckCleanup verifies the success-path cleanup contract on a fault-free
// section (property C04).
func CheckCleanup(m *Model, inj int, v *Verdict, sec *Section) []string {
	var errs []string
	if sec.Panic != "" {
		return []string{"injector call panicked"}
	}
	in := &m.S.Injectors[inj]
	_, hasCl, _, _ := m.classifyResults(m.InjResults(in))
	if !hasCl {
		return nil
	}
	clItem := map[string]bool{}
	for _, it := range v.ClItems {
		clItem[ItemID(it)] = true
	}
	var ran []string
	var cleaned []string
	marked := false
	var result *Event
	for i := range sec.Events {
		e := &sec.Events[i]
		switch e.Kind {
		case "ret":
			if clItem[e.ID] {
				ran = append(ran, e.ID)
			}
		case "cleanup":
			if !marked {
				errs = append(errs, "cleanup of "+e.ID+" ran before the caller invoked the returned function")
			}
			cleaned = append(cleaned, e.ID)
		case "bogus-cleanup":
			errs = append(errs, "bogus cleanup called")
		case "result":
			result = e
		case "mark":
			marked = true
		}
	}
	if result == nil {
		return append(errs, "no result recorded")
	}
	if !result.B1 {
		errs = append(errs, "the injector returned a nil cleanup function on success")
	}
	var want []string
	for i := len(ran) - 1; i >= 0; i-- {
		want = append(want, ran[i])
	}
	if strings.Join(want, ",") != strings.Join(cleaned, ",") {
		errs = append(errs, fmt.Sprintf("cleanups: want [%s] (reverse of the order the providers ran, each once), got [%s]", strings.Join(want, ","), strings.Join(cleaned, ",")))
	}
	// independent statement: a provider's cleanup runs before the cleanup of
	// anything it was built from
	pos := map[string]int{}
	for i, id := range cleaned {
		if _, dup := pos[id]; !dup {
			pos[id] = i
		}
	}
	for _, a := range v.ClItems {
		for _, b := range v.ClItems {
			if a != b && m.DependsOn(v, a, b) {
				pa, oka := pos[ItemID(a)]
				pb, okb := pos[ItemID(b)]
				if oka && okb && pa > pb {
					errs = append(errs, fmt.Sprintf("cleanup of %s ran after the cleanup of its dependency %s", ItemID(a), ItemID(b)))
				}
			}
		}
	}
	return errs
}

// DependsOn reports whether func item a transitively depends on func item b
// in the resolved graph of verdict v.
func (m *Model) DependsOn(v *Verdict, a, b int) bool {
	seen := map[string]bool{}
	var walk func(k string) bool
	walk = func(k string) bool {
		if seen[k] {
			return false
		}
		seen[k] = true
		e, ok := v.Set.Map[k]
		if !ok {
			return false
		}
		if e.Src.Kind == "func" && e.Src.Item == b {
			return true
		}
		for _, d := range m.Deps(e.Src) {
			if walk(d) {
				return true
			}
		}
		return false
	}
	for _, p := range m.S.Items[a].Params {
		if walk(m.K(p)) {
			return true
		}
	}
	return false
}
