package eng

import (
	"bufio"
	"encoding/json"
	"fmt"
	"os"
	"path/filepath"
	"strings"
	"time"
)

// ProgEval is everything observed about one generated program.
type ProgEval struct {
	Spec     *Spec
	Name     string
	Obs      *ProgObs // wire gen
	GenSrc   string   // wire_gen.go of the root package ("" if absent)
	BuildErr string   // go build output ("" = builds); only meaningful if wire succeeded
	Built    bool
	Run      *ProgRun // runner report (nil if not run)
	RunErr   string
	// RunCrash: this program's generated code killed (or hung) the process
	// that ran it; RunErr has the details.
	RunCrash bool
	Files    map[string]string
	Verdicts []*Verdict
}

// Accepted reports whether wire gen accepted the program's root package.
func (e *ProgEval) Accepted() bool {
	return e.Obs != nil && e.Obs.Status == "done" && !e.Obs.Failed() && e.GenSrc != ""
}

// Section finds the runner section with the given label.
func (e *ProgEval) Section(label string) *Section {
	if e.Run == nil {
		return nil
	}
	for i := range e.Run.Sections {
		if e.Run.Sections[i].Label == label {
			return &e.Run.Sections[i]
		}
	}
	return nil
}

// PipeOpts selects the stages of EvalPrograms.
type PipeOpts struct {
	Build bool // go build accepted programs
	Exec  bool // run the drivers of programs that built
	Keep  bool // keep file contents in ProgEval.Files
	// PreGen, if set, is called with the workspace after rendering and before
	// wire runs (used to plant stale files etc.).
	PreGen func(w *Workspace, names []string)
}

// EvalPrograms pushes a batch of programs through render -> wire gen -> go
// build -> runner, in chunks evaluated in parallel.
func EvalPrograms(c *Ctx, specs []*Spec, o PipeOpts) []*ProgEval {
	out := make([]*ProgEval, len(specs))
	const chunk = 200
	type rng struct{ lo, hi int }
	var rs []rng
	for lo := 0; lo < len(specs); lo += chunk {
		hi := lo + chunk
		if hi > len(specs) {
			hi = len(specs)
		}
		rs = append(rs, rng{lo, hi})
	}
	Parallel(len(rs), 3, func(ri int) {
		evalChunk(c, specs[rs[ri].lo:rs[ri].hi], out[rs[ri].lo:rs[ri].hi], rs[ri].lo, o)
	})
	for i := range out {
		if out[i] == nil {
			out[i] = &ProgEval{Spec: specs[i], Obs: &ProgObs{Status: "skipped", Pkgs: map[string]*PkgResult{}}}
		}
	}
	return out
}

func evalChunk(c *Ctx, specs []*Spec, out []*ProgEval, base int, o PipeOpts) {
	w, err := NewWorkspace(c)
	if err != nil {
		c.Inconclusive("workspace: " + err.Error())
		return
	}
	if os.Getenv("VERIF_KEEP") == "" {
		defer w.Remove()
	}
	var names []string
	for i, s := range specs {
		name := fmt.Sprintf("p%05d", base+i)
		s.SetName(name)
		m := NewModel(s)
		r := &Renderer{S: s, M: m}
		files := r.Files()
		e := &ProgEval{Spec: s, Name: name}
		if o.Keep {
			e.Files = files
		}
		for ii := range s.Injectors {
			e.Verdicts = append(e.Verdicts, m.Judge(ii))
		}
		out[i] = e
		if err := w.AddProg(name, files); err != nil {
			c.Inconclusive("render: " + err.Error())
			return
		}
		names = append(names, name)
	}
	if o.PreGen != nil {
		o.PreGen(w, names)
	}
	obs := w.GenAll(names, GenOpts{})
	var ok []string
	for i, n := range names {
		out[i].Obs = obs[n]
		if out[i].Obs == nil {
			out[i].Obs = &ProgObs{Status: "silent", Pkgs: map[string]*PkgResult{}}
		}
		out[i].GenSrc = w.GenFile(n, "wire_gen.go")
		if out[i].Accepted() {
			ok = append(ok, n)
		}
	}
	if !o.Build || len(ok) == 0 {
		return
	}
	berrs, err := w.BuildAll(ok, 15*time.Minute)
	if err != nil {
		c.Inconclusive("go build: " + err.Error())
		return
	}
	var runnable []string
	idx := map[string]int{}
	for i, n := range names {
		idx[n] = i
	}
	for _, n := range ok {
		e := out[idx[n]]
		e.BuildErr = berrs[n]
		e.Built = e.BuildErr == ""
		if e.Built {
			runnable = append(runnable, n)
		}
	}
	if q := berrs["?"]; q != "" {
		c.Inconclusive("go build output not attributable: " + q)
	}
	if !o.Exec || len(runnable) == 0 {
		return
	}
	// runner
	var mb strings.Builder
	mb.WriteString("package main\n\nimport (\n")
	for _, n := range runnable {
		fmt.Fprintf(&mb, "\t%s %q\n", n, ProgPath(n))
	}
	mb.WriteString(")\n\nfunc main() {\n")
	for _, n := range runnable {
		fmt.Fprintf(&mb, "\trunProg(%q, %s.ZzDrive)\n", n, n)
	}
	mb.WriteString("}\n")
	if err := WriteTree(w.Dir, map[string]string{"cmd/run/main.go": mb.String(), "cmd/run/tree.go": RunnerHelper}); err != nil {
		c.Inconclusive("runner: " + err.Error())
		return
	}
	bin := filepath.Join(w.Dir, "runner.bin")
	if r := w.Env.Go(w.Dir, 15*time.Minute, nil, "build", "-o", bin, "./cmd/run"); r.Exit != 0 || r.TimedOut {
		c.Inconclusive("building the runner failed: " + tail(r.Stderr, 2000))
		return
	}
	// The programs run in one process, in order.  A program that kills the
	// process (fatal error such as a stack overflow, os.Exit, runaway memory)
	// or hangs is identified as the first one without a report; the rest are
	// run again without it.
	todo := runnable
	crashes := 0
	for len(todo) > 0 {
		args := []string{}
		if len(todo) != len(runnable) {
			args = todo
		}
		r := w.Env.Run(w.Dir, 5*time.Minute, nil, bin, args...)
		sc := bufio.NewScanner(strings.NewReader(r.Stdout))
		sc.Buffer(make([]byte, 1<<20), 1<<28)
		for sc.Scan() {
			var pr ProgRun
			if err := json.Unmarshal(sc.Bytes(), &pr); err != nil {
				continue
			}
			if i, ok := idx[pr.Name]; ok {
				p := pr
				out[i].Run = &p
			}
		}
		var missing []string
		for _, n := range todo {
			if out[idx[n]].Run == nil {
				missing = append(missing, n)
			}
		}
		if len(missing) == 0 {
			break
		}
		if r.Exit == 0 && !r.TimedOut {
			for _, n := range missing {
				out[idx[n]].RunErr = "the runner finished without a report for this program"
			}
			break
		}
		culprit := missing[0]
		what := fmt.Sprintf("the process running the generated code died (exit %d)", r.Exit)
		if r.TimedOut {
			what = "the process running the generated code did not finish within 5 minutes"
		}
		out[idx[culprit]].RunErr = what + ":\n" + tail(r.Stderr, 1500)
		out[idx[culprit]].RunCrash = true
		crashes++
		todo = missing[1:]
		if crashes >= 25 {
			for _, n := range todo {
				out[idx[n]].RunErr = "not run: too many crashing programs in this batch"
			}
			c.Inconclusive("more than 25 programs of one batch crash the runner")
			break
		}
	}
}
