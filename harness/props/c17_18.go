package props

import (
	"encoding/json"
	"fmt"
	"os"
	"path/filepath"
	"sort"
	"strings"
	"time"

	"pgregory.net/rapid"

	. "verif/harness/eng"
)

// CLIStep is one operation of a history over a module.
type CLIStep struct {
	// Op: gen, default (gen without the sub-command word), diff, check, show,
	// switch (rewrite a package's sources as another kind/variant), delete
	// (remove the output file), damage (replace the output file), switchshared
	// (rewrite the package "shared", a dependency of the packages marked
	// Shared, as variant Variant: their own files stay untouched)
	Op      string  `json:"op"`
	Opts    cliOpts `json:"opts"`
	Scope   []int   `json:"scope,omitempty"` // package indices named on the command line (nil = ./...)
	Pkg     int     `json:"pkg,omitempty"`
	Kind    string  `json:"kind,omitempty"`
	Variant int     `json:"variant,omitempty"`
	Damage  string  `json:"damage,omitempty"`
}

// CLICase is a module plus a history.
type CLICase struct {
	Pkgs  []cliPkg  `json:"pkgs"`
	Steps []CLIStep `json:"steps"`
	// SharedVar is the initial variant of the package "shared" (see cliPkg.Shared).
	SharedVar int `json:"sharedvar,omitempty"`
}

func (cs *CLICase) key() string { b, _ := json.Marshal(cs); return HashString(string(b)) }

var cliKinds = []string{"ok", "ok", "ok", "fail-missing", "fail-unused", "fail-cycle", "fail-multi", "fail-sig", "fail-partial", "noinj", "noinj-badset", "noinj-blank"}

var damageKinds = []string{"stale", "noncompiling", "garbage", "crlf", "nonl", "longer", "empty", "nopkgclause", "shorter"}

func damaged(kind, fresh, other, pkg string) string {
	const hdr = "//go:build !wireinject\n// +build !wireinject\n\n"
	switch kind {
	case "stale":
		return other
	case "noncompiling":
		return hdr + "package " + pkg + "\n\nfunc broken( {\n"
	case "garbage":
		return hdr + "package " + pkg + "\n\n\x01\x7f this is not Go at all }}}} \"\n"
	case "crlf":
		return strings.ReplaceAll(fresh, "\n", "\r\n")
	case "nonl":
		return strings.TrimRight(fresh, "\n")
	case "longer":
		return fresh + strings.Repeat("\n// trailing line that a full rewrite must remove\nfunc leftover() {}\n", 1) + strings.Repeat("// padding\n", 40)
	// Every damaged file keeps a package clause.  Without one the go command
	// itself behaves in two ways: read directly (directory modified within the
	// last two seconds) the file is skipped for its constraint, read through
	// the package index (older directories) it is a parse error of the
	// package - so the outcome of a later wire command would depend on how
	// long the previous step took.  That is the toolchain's business, not
	// Wire's, and it would make the check time-dependent.
	case "empty", "nopkgclause":
		return hdr + "package " + pkg + "\n"
	case "shorter":
		cut := len(fresh) / 2
		if i := strings.Index(fresh, "\npackage "); i >= 0 {
			if j := strings.Index(fresh[i+1:], "\n"); j >= 0 && cut < i+1+j+1 {
				cut = i + 1 + j + 1
			}
		}
		if len(fresh) > 80 && cut < len(fresh) {
			return fresh[:cut]
		}
		return hdr + "package " + pkg + "\n"
	}
	return fresh
}

// genCLI draws a module and a history.  history selects the C18 flavour
// (one or two packages, many edits) over the C17 flavour (several packages,
// options, few steps).
func genCLI(history bool) *rapid.Generator[*CLICase] {
	return rapid.Custom(func(t *rapid.T) *CLICase {
		cs := &CLICase{}
		np := rapid.IntRange(2, 5).Draw(t, "npkgs")
		kinds := cliKinds
		if history {
			np = rapid.IntRange(1, 2).Draw(t, "npkgs")
		}
		for i := 0; i < np; i++ {
			k := rapid.SampledFrom(kinds).Draw(t, "kind")
			if history && i == 0 {
				k = "ok"
			}
			cs.Pkgs = append(cs.Pkgs, cliPkg{Name: fmt.Sprintf("p%c", 'a'+i), Kind: k, Variant: rapid.IntRange(0, 9).Draw(t, "variant"), Tagged: !history && rapid.IntRange(0, 3).Draw(t, "tagged") == 0, TagBroken: rapid.Bool().Draw(t, "tagbroken"),
				LineDir: rapid.IntRange(0, 99).Draw(t, "linedir") < 15, Shared: rapid.IntRange(0, 99).Draw(t, "shared") < 35})
		}
		cs.SharedVar = rapid.IntRange(0, 2).Draw(t, "sharedvar")
		drawOpts := func() cliOpts {
			o := cliOpts{}
			if history {
				return o
			}
			o.Header = rapid.SampledFrom([]string{"", "", "", "valid", "valid", "unreadable", "invalid"}).Draw(t, "header")
			o.Prefix = rapid.SampledFrom([]string{"", "", "", "zz_", "gen-"}).Draw(t, "prefix")
			o.Tags = rapid.SampledFrom([]string{"", "", "extra", "extra,zzother", "zzother extra"}).Draw(t, "tags")
			return o
		}
		drawScope := func() []int {
			switch rapid.SampledFrom([]string{"all", "all", "subset", "one"}).Draw(t, "scope") {
			case "subset":
				var sc []int
				for i := range cs.Pkgs {
					if rapid.Bool().Draw(t, "inscope") {
						sc = append(sc, i)
					}
				}
				if len(sc) > 0 {
					return sc
				}
			case "one":
				return []int{rapid.IntRange(0, np-1).Draw(t, "which")}
			}
			return nil
		}
		nsteps := rapid.IntRange(1, 4).Draw(t, "nsteps")
		ops := []string{"gen", "gen", "default", "diff", "diff", "check", "show", "damage", "delete"}
		if history {
			nsteps = rapid.IntRange(4, 14).Draw(t, "nsteps")
			ops = []string{"gen", "gen", "gen", "diff", "diff", "check", "switch", "switch", "delete", "damage", "damage", "damage", "switchshared", "switchshared"}
		}
		for i := 0; i < nsteps; i++ {
			st := CLIStep{Op: rapid.SampledFrom(ops).Draw(t, "op")}
			switch st.Op {
			case "gen", "default", "diff", "check", "show":
				st.Opts = drawOpts()
				if st.Op == "default" {
					st.Opts = cliOpts{} // the default-command form cannot carry gen's flags
				}
				st.Scope = drawScope()
			case "switch":
				st.Pkg = rapid.IntRange(0, np-1).Draw(t, "pkg")
				st.Kind = rapid.SampledFrom([]string{"ok", "ok", "ok", "fail-missing", "fail-multi", "fail-partial", "noinj"}).Draw(t, "newkind")
				st.Variant = rapid.IntRange(0, 9).Draw(t, "newvariant")
			case "switchshared":
				st.Variant = rapid.IntRange(0, 2).Draw(t, "sharedvariant")
			case "delete":
				st.Pkg = rapid.IntRange(0, np-1).Draw(t, "pkg")
			case "damage":
				st.Pkg = rapid.IntRange(0, np-1).Draw(t, "pkg")
				st.Damage = rapid.SampledFrom(damageKinds).Draw(t, "damage")
			}
			cs.Steps = append(cs.Steps, st)
		}
		return cs
	})
}

// runCLICase executes the history against the real CLI and checks every step
// against the model of exit status and file-system footprint.
func runCLICase(c *Ctx, prop string, cs *CLICase) *Fail {
	pkgs := append([]cliPkg(nil), cs.Pkgs...)
	w, err := newCLIWorld(c, pkgs, cs.SharedVar)
	if err != nil {
		c.Inconclusive("cli world: " + err.Error())
		return nil
	}
	defer w.remove()
	disk := map[string]string{} // model of output files (relative path -> content)
	lastGenOK := map[int]bool{}
	for si, st := range cs.Steps {
		before := w.snapshot()
		where := fmt.Sprintf("step %d (%s)", si, st.Op)
		switch st.Op {
		case "switchshared":
			w.sharedVar = st.Variant
			if err := w.writeShared(w.dir); err != nil {
				c.Inconclusive(err.Error())
				return nil
			}
			for i := range pkgs {
				lastGenOK[i] = false
			}
			continue
		case "switch":
			pkgs[st.Pkg].Kind, pkgs[st.Pkg].Variant = st.Kind, st.Variant
			w.pkgs = pkgs
			if err := w.writePkg(w.dir, pkgs[st.Pkg]); err != nil {
				c.Inconclusive(err.Error())
				return nil
			}
			lastGenOK[st.Pkg] = false
			continue
		case "delete":
			p := outPath(pkgs[st.Pkg], "")
			os.Remove(filepath.Join(w.dir, p))
			delete(disk, p)
			lastGenOK[st.Pkg] = false
			continue
		case "damage":
			p := pkgs[st.Pkg]
			fresh, err := w.freshContent(cliPkg{Name: p.Name, Kind: "ok", Variant: p.Variant, LineDir: p.LineDir, Shared: p.Shared}, cliOpts{})
			if err != nil {
				c.Inconclusive(err.Error())
				return nil
			}
			other, err := w.freshContent(cliPkg{Name: p.Name, Kind: "ok", Variant: p.Variant + 1}, cliOpts{})
			if err != nil {
				c.Inconclusive(err.Error())
				return nil
			}
			content := damaged(st.Damage, fresh, other, p.Name)
			op := outPath(p, "")
			os.WriteFile(filepath.Join(w.dir, op), []byte(content), 0o666)
			disk[op] = content
			lastGenOK[st.Pkg] = false
			continue
		}
		// a wire command
		var scope []cliPkg
		var patterns []string
		var scopeIdx []int
		if st.Scope == nil {
			scope = pkgs
			patterns = []string{"./..."}
			for i := range pkgs {
				scopeIdx = append(scopeIdx, i)
			}
		} else {
			for _, i := range st.Scope {
				if i < len(pkgs) {
					scope = append(scope, pkgs[i])
					patterns = append(patterns, "./"+pkgs[i].Name)
					scopeIdx = append(scopeIdx, i)
				}
			}
		}
		if len(scope) == 0 {
			continue
		}
		r := w.run(st.Op, st.Opts, patterns...)
		c.Eval(1)
		if r.TimedOut {
			c.Inconclusive("wire timed out in " + where)
			return nil
		}
		if strings.Contains(r.Stderr, "panic:") && strings.Contains(r.Stderr, "goroutine ") {
			return Failf(prop+" wire crashed", "%s: %s", where, tailStr(r.Stderr, 2000))
		}
		after := w.snapshot()
		// expected status and writes
		wantExit := 0
		wantWrites := map[string]string{}
		looseWrites := map[string]bool{}
		anyFailGen, anyFailCheck := false, false
		for _, p := range scope {
			if p.failsGen(st.Opts.Tags) {
				anyFailGen = true
			}
			if p.failsCheck(st.Opts.Tags) {
				anyFailCheck = true
			}
		}
		switch st.Op {
		case "gen", "default":
			if st.Opts.Header == "unreadable" {
				wantExit = 1
				break
			}
			if st.Opts.Header == "invalid" {
				// a readable header that is not Go: formatting fails for every package that has output;
				// the statement fixes the status (an error => non-zero), not the bytes left behind
				for _, p := range scope {
					if p.generates(st.Opts.Tags) {
						wantExit = 1
						looseWrites[outPath(p, st.Opts.Prefix)] = true
					}
				}
				if anyFailGen {
					wantExit = 1
				}
				break
			}
			if anyFailGen {
				wantExit = 1
			}
			for _, p := range scope {
				if p.generates(st.Opts.Tags) {
					fc, err := w.freshContent(p, st.Opts)
					if err != nil {
						c.Inconclusive(err.Error())
						return nil
					}
					wantWrites[outPath(p, st.Opts.Prefix)] = fc
				}
			}
		case "diff":
			switch {
			case st.Opts.Header == "unreadable" || anyFailGen:
				wantExit = 2
			case st.Opts.Header == "invalid":
				for _, p := range scope {
					if p.generates(st.Opts.Tags) {
						wantExit = 2
					}
				}
			default:
				for _, p := range scope {
					if p.generates(st.Opts.Tags) {
						fc, err := w.freshContent(p, st.Opts)
						if err != nil {
							c.Inconclusive(err.Error())
							return nil
						}
						if cur, ok := disk[outPath(p, "")]; !ok || cur != fc {
							wantExit = 1
						}
					}
				}
			}
		case "check", "show":
			if anyFailCheck {
				wantExit = 1
			}
		}
		if r.Exit != wantExit {
			return Failf(prop+" exit status differs from the command-line contract", "%s %v on %v (kinds %v): exit %d, want %d\nstderr: %s", where, st.Opts, patterns, kindsOf(scope), r.Exit, wantExit, tailStr(r.Stderr, 1500))
		}
		// footprint
		for p, content := range wantWrites {
			disk[p] = content
		}
		changed := DiffSnap(before, after)
		for _, ch := range changed {
			path := ch[1:]
			want, isOut := wantWrites[path]
			if looseWrites[path] {
				b, _ := os.ReadFile(filepath.Join(w.dir, path))
				disk[path] = string(b)
				continue
			}
			if !isOut {
				return Failf(prop+" command touched a file outside its contract", "%s %v on %v: %s (expected writes: %v)", where, st.Opts, patterns, ch, SortedKeys(wantWrites))
			}
			_ = want
		}
		for path, want := range wantWrites {
			b, err := os.ReadFile(filepath.Join(w.dir, path))
			if err != nil {
				return Failf(prop+" expected output file was not written", "%s: %s missing", where, path)
			}
			if string(b) != want {
				return Failf(prop+" output differs from what a fresh checkout of the current sources gets", "%s: %s has %d bytes, a fresh generation %d bytes\n--- on disk (tail)\n%s\n--- fresh (tail)\n%s", where, path, len(b), len(want), tailStr(string(b), 500), tailStr(want, 500))
			}
		}
		// files of failing packages and everything else stayed byte-identical: implied by the delta check above.
		if (st.Op == "gen" || st.Op == "default") && st.Opts.Header == "invalid" {
			// the files just written start with text that is not Go, so they no longer carry the
			// build constraint: whatever follows is outside the property's domain
			return nil
		}
		if st.Op == "gen" || st.Op == "default" {
			for _, i := range scopeIdx {
				lastGenOK[i] = wantExit == 0 && st.Opts.Prefix == "" && pkgs[i].generates(st.Opts.Tags)
			}
		}
	}
	return nil
}

func kindsOf(ps []cliPkg) []string {
	var out []string
	for _, p := range ps {
		out = append(out, p.Name+":"+p.Kind)
	}
	sort.Strings(out)
	return out
}

func cliProperty(id string, history bool, rule string) {
	Register(&Property{
		ID: id, Level: "exploration", Rule: rule,
		Assumptions: []string{"the expected content of an output file is what an isolated `wire gen` of the same package writes on a pristine checkout (metamorphic reference, produced by the same binary)", "file-system footprint is observed by hashing every file of the module tree before and after each command"},
		Shards: func(tier string) int {
			if tier == "thorough" {
				return 16
			}
			return 8
		},
		Timeout: func(tier string) time.Duration {
			if tier == "thorough" {
				return 120 * time.Minute
			}
			return 25 * time.Minute
		},
		Run: func(c *Ctx) {
			var last *CLICase
			var lastFail *Fail
			n := 0
			failed, log := RapidCheck(id, c.Pick(40, 400), c.Seed, time.Duration(c.Pick(60, 240))*time.Second, func(t *rapid.T) {
				cs := genCLI(history).Draw(t, "case")
				n++
				f := runCLICase(c, id, cs)
				interesting := 0
				for _, st := range cs.Steps {
					if st.Op == "damage" || st.Op == "switch" || st.Op == "switchshared" || st.Opts != (cliOpts{}) {
						interesting++
					}
				}
				mix := map[bool]bool{}
				for _, p := range cs.Pkgs {
					mix[p.failsGen("")] = true
				}
				if history && interesting >= 2 || !history && (len(mix) == 2 || interesting >= 1) {
					c.Nontrivial(cs.key())
				}
				for _, st := range cs.Steps {
					c.Class("op=" + st.Op)
					if st.Damage != "" {
						c.Class("damage=" + st.Damage)
					}
					if st.Opts.Header != "" {
						c.Class("header=" + st.Opts.Header)
					}
					if st.Opts.Prefix != "" {
						c.Class("prefix")
					}
					if st.Opts.Tags != "" {
						c.Class("tags")
					}
				}
				if n%7 == 1 {
					c.Sample(cs)
				}
				if f != nil {
					last, lastFail = cs, f
					t.Fatalf("%s", f.Kind)
				}
			})
			if failed {
				if last == nil {
					c.Inconclusive("rapid failed without verdict: " + tailStr(log, 1500))
					return
				}
				c.Violation(lastFail.Kind, lastFail.Msg, last)
			}
		},
		ReplayCase: func(c *Ctx, kind string, raw json.RawMessage) *Fail {
			var cs CLICase
			if err := json.Unmarshal(raw, &cs); err != nil {
				c.Inconclusive("bad replay case: " + err.Error())
				return nil
			}
			return runCLICase(c, id, &cs)
		},
	})
}

func init() {
	cliProperty("C17", false, "rapid-drawn modules of 2-5 packages of kinds {generates (several content variants, optional tag-guarded injector file), fails analysis (missing, unused, cycle, multiple bindings, bad signature, one good + one broken injector), no injectors, no injectors but an ill-formed set variable, no injectors but a blank import} with 1-4 steps drawn from {gen, default-command form, diff, check, show, damage an output file, delete it} under options {-header_file valid / unreadable / readable but not Go, -output_file_prefix, -tags} and scopes {./..., subset, one package}. Model: gen exits 0 iff no package in scope fails and writes exactly <prefix>wire_gen.go of the generating packages in scope with the bytes an isolated generation yields, everything else in the tree byte-identical (sha256 snapshot before/after); diff/check/show change nothing; diff exits 2 on failure or unusable header (for a readable non-Go header only the statuses are modelled: gen non-zero, diff 2, and the history ends there because the files written no longer carry the constraint), else 1 if some on-disk output differs or is absent, else 0; check/show exit 1 iff a package in scope has a failing injector or ill-formed set. evaluations = wire invocations checked. Non-trivial = invocation mixing failing and succeeding packages or using an option; distinct by case hash.")
	cliProperty("C18", true, "rapid-drawn histories of 4-14 steps over one or two packages: switch the sources to another variant (generating variants of different output size, rejected variants), gen, diff, check, delete the output, replace the output by a stale / non-compiling / garbage / CRLF / newline-stripped / longer / shorter / empty / package-clause-less file that still carries the !wireinject constraint. Invariant after every step (model of the expected on-disk bytes): a successful gen leaves exactly the file a pristine checkout of the current sources gets, a failed gen leaves the tree untouched, gen is idempotent, diff exits 0 right after a successful gen and otherwise 0/1/2 per the model; nothing but the output file ever changes. evaluations = wire invocations checked. Non-trivial = history with >=2 edits/damages; distinct by case hash.")
}
