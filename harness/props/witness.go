package props

import (
	"encoding/json"
	"fmt"
	"os"
	"path/filepath"

	. "verif/harness/eng"
)

// Witnesses of the recorded findings: built programmatically so that they
// stay in step with the case formats, and written to known_findings.json by
// `vcheck witnesses` (a development command; checks never write that file).

func rawJSON(v interface{}) json.RawMessage { b, _ := json.Marshal(v); return b }

func c20w(cat, form, ctx string) json.RawMessage {
	return rawJSON(&C20Case{Cat: cat, Form: form, Ctx: ctx, Import: "plain"})
}

// specD35: a library value mentioning int8, used from a package that redeclares int8.
func specD35() *Spec {
	s := &Spec{ImportAlias: map[int]string{}, Pkgs: []Pkg{{Name: "app"}, {Dir: "lib", Name: "lib"}}}
	s.PkgExtra = map[int]string{0: "type int8 = int16\n", 1: "var X = 7\n"}
	ii := addItem(s, Item{Kind: "value", Expr: "int(int8(X*40 + 42))", Out: Basic("int"), ExprClass: "inaccessible"})
	s.Sets = []Set{{Pkg: 1, Name: "VSet", Args: []Ref{RItem(ii)}, AliasOf: -1}}
	s.Injectors = []Injector{{Name: "Inject", Out: Basic("int"), Args: []Ref{RSet(0)}, Panic: true}}
	refreshPlan(s)
	return s
}

// specD31: a provider from a package called init.
func specD31() *Spec {
	s := &Spec{ImportAlias: map[int]string{1: "boot"}, Pkgs: []Pkg{{Name: "app"}, {Dir: "boot/init", Name: "init"}}}
	cfg := Named(addFreshStruct(s, 1, "Config"))
	nc := addItem(s, Item{Kind: "func", Pkg: 1, Name: "NewConfig", Out: cfg})
	s.Injectors = []Injector{{Name: "InitConfig", Out: cfg, Args: []Ref{RItem(nc)}}}
	refreshPlan(s)
	return s
}

// specD30: an accepted program whose package also declares a type alias of
// the marker type.
func specD30() *Spec {
	s := &Spec{ImportAlias: map[int]string{}, Pkgs: []Pkg{{Name: "app"}}}
	foo := Named(addFreshStruct(s, 0, "Foo"))
	nf := addItem(s, Item{Kind: "func", Name: "NewFoo", Out: foo})
	s.Sets = []Set{{Pkg: 0, Name: "Good", Args: []Ref{RItem(nf)}, AliasOf: -1}}
	s.Injectors = []Injector{{Name: "InitFoo", Out: foo, Args: []Ref{RSet(0)}}}
	s.PkgExtra = map[int]string{0: "type ZzSetType = wire.ProviderSet\n"}
	s.PkgExtraImports = map[int][]string{0: {"\"github.com/google/wire\""}}
	refreshPlan(s)
	return s
}

// specD28: a struct with a blank field built by the all-fields form.
func specD28() *Spec {
	s := &Spec{ImportAlias: map[int]string{}, Pkgs: []Pkg{{Name: "app"}}}
	fa := Named(addFreshStruct(s, 0, "FA"))
	fb := Named(addFreshStruct(s, 0, "FB"))
	s.Decls = append(s.Decls, Decl{Pkg: 0, Name: "S", Form: "struct", Fields: []SField{{Name: "A", T: fa}, {Name: "_", T: fb}}})
	st := Named(len(s.Decls) - 1)
	pa := addItem(s, Item{Kind: "func", Name: "ProvideFA", Out: fa})
	si := addItem(s, Item{Kind: "struct", Out: st, Star: true})
	s.Injectors = []Injector{{Name: "Inject", Out: st, Args: []Ref{RItem(pa), RItem(si)}}}
	refreshPlan(s)
	return s
}

// specD27: two injectors; the second has a parameter named like the provider
// function both build lists spell.
func specD27() *Spec {
	s := &Spec{ImportAlias: map[int]string{}, Pkgs: []Pkg{{Name: "app"}}}
	bar := Named(addFreshStruct(s, 0, "Bar"))
	foo := Named(addFreshStruct(s, 0, "Foo"))
	other := Named(addFreshStruct(s, 0, "Other"))
	nb := addItem(s, Item{Kind: "func", Name: "NewBar", Out: Ptr(bar)})
	nf := addItem(s, Item{Kind: "func", Name: "NewFoo", Out: foo, Params: []*Type{Ptr(bar)}})
	s.Injectors = []Injector{
		{Name: "InitA", Out: foo, Args: []Ref{RItem(nf), RItem(nb)}},
		{Name: "InitB", Out: foo, Args: []Ref{RItem(nf), RItem(nb)}, Params: []Param{{Name: "NewBar", T: other}}},
	}
	refreshPlan(s)
	return s
}

// specD1: the package declares err; an error-returning provider chain.
func specD1() *Spec {
	s := &Spec{ImportAlias: map[int]string{}, Pkgs: []Pkg{{Name: "app"}}}
	a := addFreshStruct(s, 0, "A")
	b := addFreshStruct(s, 0, "B")
	pa := addItem(s, Item{Kind: "func", Name: "ProvideA", Out: Ptr(Named(a)), Err: true, Cleanup: true})
	pb := addItem(s, Item{Kind: "func", Name: "ProvideB", Params: []*Type{Ptr(Named(a))}, Out: Ptr(Named(b)), Err: true, Cleanup: true})
	s.Injectors = []Injector{{Name: "Inject", Out: Ptr(Named(b)), Cleanup: true, Err: true, Panic: true, Args: []Ref{RItem(pa), RItem(pb)}}}
	s.Extra = "package app\n\nvar err error\n"
	s.Plan = []Run{{Inj: 0, Fault: -1}, {Inj: 0, Fault: pa}, {Inj: 0, Fault: pb}}
	return s
}

// specD8: struct{Foo A; foo B} with the name "foo".
func specD8() *Spec {
	s := &Spec{ImportAlias: map[int]string{}, Pkgs: []Pkg{{Name: "app"}}}
	a := addFreshStruct(s, 0, "A")
	b := addFreshStruct(s, 0, "B")
	s.Decls = append(s.Decls, Decl{Name: "S", Form: "struct", Fields: []SField{{Name: "Foo", T: Named(a)}, {Name: "foo", T: Named(b)}}})
	S := Named(len(s.Decls) - 1)
	pa := addItem(s, Item{Kind: "func", Name: "ProvideA", Out: Named(a)})
	pb := addItem(s, Item{Kind: "func", Name: "ProvideB", Out: Named(b)})
	st := addItem(s, Item{Kind: "struct", Out: S, Fields: []string{"foo"}})
	s.Sets = []Set{{Name: "Deps", Args: []Ref{RItem(pa), RItem(pb)}, AliasOf: -1}}
	s.Injectors = []Injector{{Name: "Inject", Out: S, Panic: true, Args: []Ref{RSet(0), RItem(st)}}}
	refreshPlan(s)
	return s
}

// specD9: wire.Value(f()) with f of a named function type.
func specD9() *Spec {
	s := &Spec{ImportAlias: map[int]string{}, Pkgs: []Pkg{{Name: "app"}}, PkgExtra: map[int]string{0: "type NF func() int\n\nvar nf NF = func() int { return 3 }\n"}}
	v := addItem(s, Item{Kind: "value", Out: Basic("int"), Expr: "nf()", ExprClass: "unsafe"})
	s.Injectors = []Injector{{Name: "Inject", Out: Basic("int"), Panic: true, Args: []Ref{RItem(v)}}}
	refreshPlan(s)
	return s
}

// specD20: wire.InterfaceValue with a call expression (known finding).
func specD20() *Spec {
	s := &Spec{ImportAlias: map[int]string{}, Pkgs: []Pkg{{Name: "app"}}}
	s.Decls = append(s.Decls, Decl{Name: "I", Form: "iface", IMeth: []string{"M"}}, Decl{Name: "T", Form: "struct", Fields: []SField{{Name: "A", T: Basic("int")}}, Methods: []Method{{Name: "M"}}})
	s.PkgExtra = map[int]string{0: "var Calls int\n\nfunc mkT() T { Calls++; return T{A: Calls} }\n"}
	v := addItem(s, Item{Kind: "ivalue", Out: Named(0), Conc: Named(1), Expr: "mkT()", ExprClass: "unsafe"})
	s.Injectors = []Injector{{Name: "Inject", Out: Named(0), Panic: true, Args: []Ref{RItem(v)}}}
	refreshPlan(s)
	return s
}

// specD16: "*" on a struct of another package with an unexported field.
func specD16() *Spec {
	s := &Spec{ImportAlias: map[int]string{}, Pkgs: []Pkg{{Name: "app"}, {Dir: "other", Name: "other"}}}
	a := addFreshStruct(s, 1, "A")
	b := addFreshStruct(s, 1, "B")
	s.Decls = append(s.Decls, Decl{Pkg: 1, Name: "S", Form: "struct", Fields: []SField{{Name: "Pub", T: Named(a)}, {Name: "priv", T: Named(b)}}})
	S := Named(len(s.Decls) - 1)
	pa := addItem(s, Item{Kind: "func", Pkg: 1, Name: "ProvideA", Out: Named(a)})
	pb := addItem(s, Item{Kind: "func", Pkg: 1, Name: "ProvideB", Out: Named(b)})
	st := addItem(s, Item{Kind: "struct", Out: S, Star: true})
	s.Injectors = []Injector{{Name: "Inject", Out: S, Panic: true, Args: []Ref{RItem(pa), RItem(pb), RItem(st)}}}
	refreshPlan(s)
	return s
}

// specD18: an unexported provider function in a set of another package.
func specD18() *Spec {
	s := &Spec{ImportAlias: map[int]string{}, Pkgs: []Pkg{{Name: "app"}, {Dir: "other", Name: "other"}}}
	a := addFreshStruct(s, 1, "A")
	pa := addItem(s, Item{Kind: "func", Pkg: 1, Name: "provideA", Out: Named(a)})
	s.Sets = []Set{{Pkg: 1, Name: "Set", Args: []Ref{RItem(pa)}, AliasOf: -1}}
	s.Injectors = []Injector{{Name: "Inject", Out: Named(a), Panic: true, Args: []Ref{RSet(0)}}}
	refreshPlan(s)
	return s
}

// specD14: an injector that lacks the error result a dependency's provider needs.
func specD14() *Spec {
	s := &Spec{ImportAlias: map[int]string{}, Pkgs: []Pkg{{Name: "app"}}}
	a := addFreshStruct(s, 0, "A")
	b := addFreshStruct(s, 0, "B")
	pa := addItem(s, Item{Kind: "func", Name: "ProvideA", Out: Ptr(Named(a)), Err: true})
	pb := addItem(s, Item{Kind: "func", Name: "ProvideB", Params: []*Type{Ptr(Named(a))}, Out: Ptr(Named(b))})
	s.Injectors = []Injector{{Name: "Inject", Out: Ptr(Named(b)), Panic: true, Args: []Ref{RItem(pa), RItem(pb)}}}
	refreshPlan(s)
	return s
}

// WriteFindings writes /verif/known_findings.json.
func WriteFindings(commits map[string]string) error {
	type F = Finding
	fixed := func(id, prop, commitKey, what, kind string, w json.RawMessage) F {
		c := commits[commitKey]
		return F{ID: id, Property: prop, Status: "fixed", Commit: c, WhatFails: what, Kind: kind, Witness: w,
			Line: fmt.Sprintf("fixed: property=%s %s %s", prop, c, what)}
	}
	known := func(id, prop, what, kind string, w json.RawMessage) F {
		return F{ID: id, Property: prop, Status: "known", WhatFails: what, Kind: kind, Witness: w,
			Line: fmt.Sprintf("known: property=%s %s", prop, what)}
	}
	fs := []F{
		fixed("D1", "C14", "D1", "package declares err: the failure branch returned the hard-coded identifier err instead of the chosen error variable (wrong error value / no compile)", "C14", rawJSON(specD1())),
		fixed("D2", "C20", "D2", "wire.Build(nil) / universe identifiers as provider-set items: nil *types.Package dereference", "C20 wire crashed", c20w("item", "nil", "build")),
		fixed("D3", "C20", "D3", "wire.Bind with dot-imported wire: failed type assertion in bindShouldUsePointer", "C20 wire crashed", rawJSON(&C20Case{Cat: "bind", Form: "new(I), new(C)", Ctx: "build", Import: "dot"})),
		fixed("D4", "C20", "D4", "wire.Struct(&S{}, ...) / wire.Struct((*S)(nil), ...): panic in processStructProvider", "C20 wire crashed", c20w("struct", "&S{}, \"*\"", "build")),
		fixed("D5", "C20", "D4", "wire.Struct(new(struct{...}), ...) / new(G[int]): nil dereference in processStructProvider", "C20 wire crashed", c20w("struct", "new(struct{ A int }), \"*\"", "build")),
		fixed("D6", "C20", "D6", "wire.FieldsOf(new(*int), ...): nil *types.Struct printed in the diagnostic", "C20 wire crashed", c20w("fields", "new(*int), \"A\"", "build")),
		fixed("D7", "C20", "D7", "injector returning (unsafe.Pointer, error) with a fallible provider: panic(\"unreachable\") in zeroValue", "C20 wire crashed", rawJSON(&C20Case{Cat: "result", Form: "unsafe.Pointer|nil", Import: "plain", Err: true})),
		fixed("D8", "C12", "D8", "struct{Foo A; foo B} with wire.Struct(new(S), \"foo\") filled field Foo (case-insensitive field-name match)", "C12", rawJSON(specD8())),
		fixed("D9", "C13", "D9", "wire.Value(f()) with f of a named function type was accepted as a conversion", "C13", rawJSON(specD9())),
		fixed("D10", "C20", "D10", "copied expression instantiating a generic with two type arguments (Pair[int, string]{...}): unhandled AST node *ast.IndexListExpr", "C20 wire crashed", rawJSON(&C20Case{Cat: "ivalue", Form: "new(I), Pair[int, string]{}", Ctx: "build", Import: "plain"})),
		fixed("D11", "C20", "D11", "`var a, Set2 = pair()` used as a provider set: index out of range", "C20 wire crashed", c20w("item", "Set2", "build")),
		fixed("D12", "C20", "D12", "wire.InterfaceValue(new(I), nil): invalid identifier emitted, diagnostic without position, file written", "C20 failure without a positioned diagnostic", c20w("ivalue", "new(any), nil", "buildonly")),
		fixed("D14", "C19", "D14", "wire check exited 0 for an injector that lacks the error/cleanup result a provider needs (and for values using another package's unexported identifiers) although wire gen rejects it", "C19", rawJSON(specD14())),
		fixed("D16", "C01", "D16", "wire.Struct(new(other.S), \"*\") with an unexported field: success reported, output does not compile", "C01", rawJSON(specD16())),
		fixed("D18", "C01", "D16", "unexported provider function in a provider set of another package: success reported, output does not compile", "C01", rawJSON(specD18())),
		fixed("D19", "C20", "D19", "`var S = wire.ProviderSet{}`: unchecked type assertion panics wire check / wire show", "C20 wire crashed", c20w("item", "wire.ProviderSet{}", "directvar")),
		fixed("D13", "C17", "D13", "wire diff -header_file <unreadable> exited 1 (= differs) instead of 2 (= trouble)", "C17",
			rawJSON(&CLICase{Pkgs: []cliPkg{{Name: "pa", Kind: "ok"}}, Steps: []CLIStep{{Op: "gen"}, {Op: "diff", Opts: cliOpts{Header: "unreadable"}}}})),
		fixed("D22", "C17", "D22", "wire gen -header_file <valid> wrote a header-only wire_gen.go (no package clause) into packages without injectors", "C17",
			rawJSON(&CLICase{Pkgs: []cliPkg{{Name: "pa", Kind: "noinj"}, {Name: "pb", Kind: "ok"}}, Steps: []CLIStep{{Op: "gen", Opts: cliOpts{Header: "valid"}}}})),
		fixed("D23", "C20", "D23", "wire.Build(os.Stdin): the only diagnostic was positioned inside the standard library (the variable's initialiser), not in the user's sources", "C20 failure without a positioned diagnostic", c20w("item", "os.Stdin", "build")),
		fixed("D24", "C20", "D24", "wire.Build(os.Exit): the wrong-signature diagnostic was positioned only at the declaration inside the standard library", "C20 failure without a positioned diagnostic", c20w("item", "os.Exit", "build")),
		fixed("D25", "C20", "D25", "wire.Build(xconf.Dup{}) / wire.Struct(new(xconf.Dup), \"*\") for a struct of a third-party module with two fields of one type: the only diagnostic was positioned at the field inside the dependency", "C20 failure without a positioned diagnostic", c20w("item", "xconf.Dup{}", "build")),
		fixed("D26", "C20", "D26", "wire.InterfaceValue(new(I), func() I { _ = 1; return C{} }()) as the source of the injector's result: nil pointer dereference in the accessibility check (the blank identifier has no object)", "C20 wire crashed",
			rawJSON(&C20Case{Cat: "ivalue-needed", Form: "new(I), func() I { _ = 1; return C{} }()", Ctx: "needed", Import: "plain"})),
		fixed("D27", "C06", "D27", "func InitB(NewBar Other) Foo { wire.Build(NewFoo, NewBar) } after an injector that uses the function NewBar: the parameter was mistaken for the package-level function (object cache keyed by name) and the missing *Bar silently filled by a provider the build list does not name", "C06 program the documented rules reject was accepted", rawJSON(specD27())),
		fixed("D28", "C12", "D28", "wire.Struct(new(S), \"*\") for struct{ A FA; _ FB }: the blank field was treated as an input (a provider for FB was demanded; with one, S{A: a, _: b} was emitted, which does not compile), and \"_\" was accepted as a field name by wire.Struct and wire.FieldsOf", "C12 program the documented rules accept was rejected", rawJSON(specD28())),
		fixed("D29", "C17", "D29", "wire gen ./... / wire diff ./... in a module with a directory that only holds _test.go files: \"no files to derive output directory from\", generate failed (exit 1 / 2) although every package with injectors generated", "C17 exit status differs from the command-line contract",
			rawJSON(&CLICase{Pkgs: []cliPkg{{Name: "pa", Kind: "ok"}}, Steps: []CLIStep{{Op: "gen"}, {Op: "diff"}}})),
		fixed("D30", "C19", "D30", "type ZzSetType = wire.ProviderSet in a package that gen accepts: wire check and wire show fail with \"type ... is not a provider or a provider set\"", "C19 check disagrees with gen and the reference verdict", rawJSON(specD30())),
		fixed("D31", "C14", "D31", "a dependency declared as package init (imported by the user as boot \"…/boot/init\"): the generated file imported it under its own name, which does not compile", "C14 under adversarial names: C01 package does not compile with the generated file", rawJSON(specD31())),
		fixed("D32", "C20", "D32", "wire.Build(NewS, wire.NewSet(wire.NewSet(xconf.LoneBinding))) where LoneBinding is a wire.Bind variable of a third-party module whose concrete type the set does not provide: the only diagnostic was positioned inside the dependency", "C20 failure without a positioned diagnostic", c20w("item", "xconf.LoneBinding", "nested")),
		fixed("D33", "C20", "D33", "func Inject() S { (wire.Build)(NewS); return S{} } and panic((wire.Build(NewS))): not recognised as injector templates - wire exits 0 without generating an implementation (signature rules unchecked)", "C20 success reported but an injector template got no implementation",
			rawJSON(&C20Case{Cat: "injector", Form: "func Inject() S { (wire.Build)(NewS); return S{} }", Import: "plain"})),
		fixed("D34", "C17", "D34", "wire check -tags extra,zzother ./pa (the comma-separated form the usage text advertises): the go command rejects the mixed list \"wireinject extra,zzother\" and every sub-command fails for every package", "C17 exit status differs from the command-line contract",
			rawJSON(&CLICase{Pkgs: []cliPkg{{Name: "pa", Kind: "ok"}}, Steps: []CLIStep{{Op: "check", Opts: cliOpts{Tags: "extra,zzother"}}, {Op: "gen", Opts: cliOpts{Tags: "extra,zzother"}}}})),
		fixed("D35", "C13", "D35", "wire.Value(int(int8(X*40 + 42))) written in package lib, injector in a package that declares type int8 = int16: the expression was copied with the predeclared identifier left bare and the injector provided another value than the one written", "C13 program the documented rules reject was accepted", rawJSON(specD35())),
		known("D15", "C20", "injector body with extra statements: the invalid-injector diagnostic of `wire gen` carries no file:line:col position (its text is pinned by golden file InvalidInjector of the repository's suite, so a repair would change an expected output)", "C20 failure without a positioned diagnostic",
			rawJSON(&C20Case{Cat: "injector", Form: "func Inject() S { y := 1; _ = y; wire.Build(NewS); return S{} }", Import: "plain"})),
		known("D20", "C13", "wire.InterfaceValue(new(I), f()) is accepted and the call is copied into the generated package-level variable (the repository's golden test InterfaceValue uses strings.NewReader(...) and pins acceptance)", "C13",
			rawJSON(specD20())),
	}
	out := struct {
		Comment  string    `json:"comment"`
		Findings []Finding `json:"findings"`
	}{
		Comment:  "Genuine defects of the pinned google/wire tree found by the checks. status=fixed: repaired by the named `fix:` commit in /repo, the witness is replayed as an ordinary regression case (a failure is a VIOLATION). status=known: recorded, not repaired; the witness is replayed on every run of the property's check and announced as KNOWN-FINDING while it still fails; the generators keep that class out of the random stream. Checks never write this file.",
		Findings: fs,
	}
	b, err := json.MarshalIndent(out, "", " ")
	if err != nil {
		return err
	}
	return os.WriteFile(filepath.Join(VerifDir(), "known_findings.json"), append(b, '\n'), 0o666)
}
