package props

import (
	"fmt"
	"strings"
	"unicode"

	"pgregory.net/rapid"

	. "verif/harness/eng"
)

// The naming layer: substitutes adversarial identifiers for the canonical
// names of a generated program, consistently, keeping the program
// type-correct.  Behaviour must not change (property C14), so every oracle
// that judges a canonical program also judges its renamed form.

var (
	pkgNamePool  = []string{"init", "err", "err2", "cleanup", "cleanup2", "config", "foo", "foo", "foo2", "bar", "context", "fmt", "errors", "strconv", "v1", "v2", "go_", "typ", "select_", "ünï", "pkg", "main2", "arg", "v", "app2"}
	typeNamePool = []string{"Err", "Error", "Cleanup", "Config", "Foo", "Foo2", "Foo_2", "Bar", "Context", "Type", "Func", "Var", "Go", "Select", "Default", "Range", "String", "Int", "Bool", "Nil", "True", "Len", "New", "Make", "Panic", "Any", "Arg", "V", "Ünï", "Ж", "Wire", "Pkg", "App", "Fmt", "Errors", "Strconv", "HTTPServer", "DB", "Err2", "Cleanup2", "Map", "Chan", "Interface", "Struct", "Package", "Import", "Return", "Defer", "Switch", "Case", "If", "For", "Else", "Break", "Const", "Goto", "Fallthrough", "Continue"}
	rootTypePool = []string{"err", "cleanup", "foo", "foo2", "config", "arg", "v", "t", "context_", "err_2", "cleanup_"}
	funcNamePool = []string{"New", "NewFoo", "Provide", "Open", "Err", "Cleanup", "Make", "Build", "Get", "Default", "Foo", "Init", "Wire"}
	rootFuncPool = []string{"newFoo", "provide", "open", "get", "mk", "build"}
	setNamePool  = []string{"Set", "Set", "Set", "ProviderSet", "Default", "All", "Foo", "Super", "Err", "Cleanup"}
	paramPool    = []string{"err", "cleanup", "error", "string", "int", "nil", "true", "false", "len", "make", "any", "cap", "append", "iota", "err2", "cleanup2", "arg", "v", "foo", "foo2", "foo_2", "ctx", "typ", "ünï", "x", "bool", "copy", "print"}
	injNamePool  = []string{"Inject", "Initialize", "initApp", "Setup", "inject", "NewApp", "BuildAll", "Err"}
)

type namer struct {
	t     *rapid.T
	s     *Spec
	used  []map[string]bool // per package: package-level identifiers
	ports map[string]bool   // identifiers used as import names anywhere
}

func (n *namer) pct(p int, l string) bool { return rapid.IntRange(0, 99).Draw(n.t, l) < p }

// free makes name unique within package pkg.
func (n *namer) free(pkg int, name string) string {
	cand := name
	for i := 2; n.used[pkg][cand] || n.ports[cand] || IsKeyword(cand) || cand == "_" || cand == "init" || cand == "main"; i++ {
		cand = fmt.Sprintf("%s%d", name, i)
		if len(name) > 0 && name[len(name)-1] >= '0' && name[len(name)-1] <= '9' {
			cand = fmt.Sprintf("%s_%d", name, i)
		}
	}
	n.used[pkg][cand] = true
	return cand
}

func isExportedName(s string) bool {
	for _, r := range s {
		return unicode.IsUpper(r)
	}
	return false
}

// ApplyNames renames packages, types, provider functions, sets, injectors and
// parameters.  collide raises the share of names built to collide with the
// names Wire generates.
func ApplyNames(t *rapid.T, s *Spec) {
	n := &namer{t: t, s: s, ports: map[string]bool{"wire": true, "trace": true, "unsafe": true}}
	for range s.Pkgs {
		n.used = append(n.used, map[string]bool{"ZzDrive": true})
	}
	// universe names our own rendered code relies on must not be shadowed at package level
	reserved := []string{"int", "string", "bool", "error", "nil", "new", "make", "panic", "float64", "complex", "complex128", "complex64", "uint8", "int16", "int32", "int64", "uint", "float32", "uintptr", "recover", "true", "false", "len", "any", "byte", "rune", "real", "imag", "cap", "append", "copy", "print", "println", "close", "delete", "iota", "uint16", "uint32", "uint64", "int8", "max", "min", "clear"}
	for pi := range s.Pkgs {
		for _, r := range reserved {
			n.used[pi][r] = true
		}
	}
	// --- packages
	seenDir := map[string]bool{"": true, "trace": true, "cmd": true, "wiremod": true}
	var typeLower []string
	for _, d := range s.Decls {
		if d.Form != "alias" {
			typeLower = append(typeLower, strings.ToLower(d.Name))
		}
	}
	nameCount := map[string]int{}
	for pi := range s.Pkgs {
		if pi == 0 {
			if n.pct(50, "rootname") {
				s.Pkgs[0].Name = rapid.SampledFrom([]string{"foo", "app2", "config", "err", "cleanup", "pkg", "v"}).Draw(t, "rootpkgname")
			}
			nameCount[s.Pkgs[0].Name]++
			continue
		}
		if !n.pct(70, "renamepkg") {
			nameCount[s.Pkgs[pi].Name]++
			seenDir[s.Pkgs[pi].Dir] = true
			continue
		}
		pool := pkgNamePool
		name := rapid.SampledFrom(pool).Draw(t, "pkgname")
		dir := name
		switch rapid.SampledFrom([]string{"same", "same", "same", "suffix2", "nested", "vN"}).Draw(t, "dirstyle") {
		case "suffix2":
			dir = name + "2"
		case "nested":
			dir = "internal/" + name
		case "vN":
			dir = name + "/v2"
		}
		dir = strings.NewReplacer("ü", "u", "ï", "i", "ñ", "n", "Ж", "zh").Replace(dir)
		for i := 2; seenDir[dir]; i++ {
			dir = fmt.Sprintf("%s%d", name, i)
			dir = strings.NewReplacer("ü", "u", "ï", "i", "ñ", "n").Replace(dir)
		}
		seenDir[dir] = true
		s.Pkgs[pi].Name, s.Pkgs[pi].Dir = name, dir
		nameCount[name]++
	}
	// import aliases in user files: needed for duplicate names, drawn otherwise
	if s.ImportAlias == nil {
		s.ImportAlias = map[int]string{}
	}
	usedAlias := map[string]bool{}
	for pi := 1; pi < len(s.Pkgs); pi++ {
		name := s.Pkgs[pi].Name
		alias := ""
		if nameCount[name] > 1 || usedAlias[name] || name == "init" || name == s.Pkgs[0].Name && false {
			// (a package called init can only be imported under another name)
			alias = fmt.Sprintf("%sx%d", strings.TrimRight(name, "_"), pi)
		} else if n.pct(20, "alias") {
			alias = rapid.SampledFrom([]string{"p", "q", "lib", "dep", "foo3", "err3", "x"}).Draw(t, "aliasname") + fmt.Sprint(pi)
		}
		if alias != "" {
			s.ImportAlias[pi] = alias
			usedAlias[alias] = true
			n.ports[alias] = true
		} else {
			delete(s.ImportAlias, pi)
			usedAlias[name] = true
			n.ports[name] = true
		}
	}
	// --- types
	for di := range s.Decls {
		d := &s.Decls[di]
		name := d.Name
		if !strings.HasPrefix(name, "Impl") && n.pct(55, "renametype") {
			pool := typeNamePool
			if d.Pkg == 0 && n.pct(40, "unexportedtype") {
				pool = rootTypePool
			}
			name = rapid.SampledFrom(pool).Draw(t, "typename")
			if n.pct(15, "pkgnametype") && len(s.Pkgs) > 1 {
				// a type whose unexported form equals a package name
				pn := s.Pkgs[rapid.IntRange(1, len(s.Pkgs)-1).Draw(t, "whichpkg")].Name
				r := []rune(pn)
				r[0] = unicode.ToUpper(r[0])
				if unicode.IsUpper(r[0]) {
					name = string(r)
				}
			}
		}
		old := d.Name
		d.Name = n.free(d.Pkg, name)
		// embedded fields are named after their type
		for dj := range s.Decls {
			for fi := range s.Decls[dj].Fields {
				f := &s.Decls[dj].Fields[fi]
				if f.Embedded && f.Name == old {
					ft := f.T
					if ft.K == "ptr" {
						ft = ft.Elem
					}
					if ft.K == "named" && ft.Decl == di {
						oldName := f.Name
						f.Name = d.Name
						for ii := range s.Items {
							for k, fn := range s.Items[ii].Fields {
								if fn == oldName {
									s.Items[ii].Fields[k] = d.Name
								}
							}
						}
					}
				}
			}
		}
	}
	// the same type name in two packages (identity must still be by import path)
	if len(s.Pkgs) > 1 && n.pct(35, "twintypes") {
		for di := range s.Decls {
			a := &s.Decls[di]
			if a.Form == "alias" || strings.HasPrefix(a.Name, "Impl") || !isExportedName(a.Name) {
				continue
			}
			done := false
			for dj := range s.Decls {
				b := &s.Decls[dj]
				if dj == di || b.Pkg == a.Pkg || b.Form == "alias" || strings.HasPrefix(b.Name, "Impl") || n.used[b.Pkg][a.Name] {
					continue
				}
				embedded := false
				for _, d := range s.Decls {
					for _, f := range d.Fields {
						if f.Embedded && f.Name == b.Name {
							embedded = true
						}
					}
				}
				if embedded {
					continue
				}
				delete(n.used[b.Pkg], b.Name)
				b.Name = a.Name
				n.used[b.Pkg][b.Name] = true
				done = true
				break
			}
			if done {
				break
			}
		}
	}
	// --- provider functions
	for ii := range s.Items {
		it := &s.Items[ii]
		if it.Kind != "func" {
			continue
		}
		name := it.Name
		if n.pct(50, "renamefunc") {
			pool := funcNamePool
			if it.Pkg == 0 && n.pct(50, "unexportedfunc") {
				pool = rootFuncPool
			}
			name = rapid.SampledFrom(pool).Draw(t, "funcname")
		}
		it.Name = n.free(it.Pkg, name)
	}
	// --- sets
	conventional := n.pct(35, "allsetsnamedset") // the conventional `var Set = ...` in every package
	for si := range s.Sets {
		st := &s.Sets[si]
		name := st.Name
		if conventional {
			name = "Set"
		} else if n.pct(50, "renameset") {
			name = rapid.SampledFrom(setNamePool).Draw(t, "setname")
			if st.Pkg == 0 && n.pct(30, "unexportedset") {
				name = strings.ToLower(name[:1]) + name[1:]
			}
		}
		st.Name = n.free(st.Pkg, name)
	}
	// --- injectors and parameters
	for k := range s.Injectors {
		in := &s.Injectors[k]
		name := in.Name
		if n.pct(50, "renameinj") {
			name = rapid.SampledFrom(injNamePool).Draw(t, "injname")
		}
		in.Name = n.free(0, name)
	}
	for k := range s.Injectors {
		in := &s.Injectors[k]
		if len(in.Params) == 0 || in.Params[0].Name == "" || in.Params[0].Name == "_" {
			continue
		}
		// the template mentions package-level names and import names: avoid those
		seen := map[string]bool{}
		for pi := range in.Params {
			if !n.pct(70, "renameparam") && !n.ports[in.Params[pi].Name] {
				seen[in.Params[pi].Name] = true
				continue
			}
			cand := rapid.SampledFrom(paramPool).Draw(t, "paramname")
			for i := 2; seen[cand] || n.used[0][cand] && !isUniverse(cand) || n.ports[cand] || cand == "new" || cand == "panic"; i++ {
				cand = fmt.Sprintf("%s%d", strings.TrimRight(cand, "0123456789_"), i)
			}
			// names of universe types used in this injector's signature must stay visible
			if usedInSignature(s, in, cand) {
				cand = fmt.Sprintf("zp%d", pi)
			}
			seen[cand] = true
			in.Params[pi].Name = cand
			if isUniverse(cand) {
				// the non-panic template body spells result types such as error
				in.Panic = true
			}
		}
	}
	// --- adversarial package-level declarations in the injector's package
	var extra []string
	add := func(decl, name string) {
		if !n.used[0][name] && !n.ports[name] {
			n.used[0][name] = true
			extra = append(extra, decl)
		}
	}
	if n.pct(45, "pkgerr") {
		add("var err error", "err")
	}
	if n.pct(25, "pkgerr2") {
		add("var err2 = 2", "err2")
	}
	if n.pct(35, "pkgcleanup") {
		add("func cleanup() {}", "cleanup")
	}
	if n.pct(20, "pkgcleanup2") {
		add("var cleanup2 func()", "cleanup2")
	}
	if n.pct(20, "pkgcleanup3") {
		add("type cleanup3 int", "cleanup3")
	}
	// a variable named like the helper Wire would invent for a value of some type
	for _, it := range s.Items {
		if (it.Kind == "value" || it.Kind == "ivalue") && n.pct(30, "wirevalname") {
			ot := it.Out
			for ot.K == "ptr" {
				ot = ot.Elem
			}
			if ot.K == "named" {
				tn := s.Decls[ot.Decl].Name
				r := []rune(tn)
				r[0] = unicode.ToUpper(r[0])
				add(fmt.Sprintf("var _wire%sValue = 0", string(r)), fmt.Sprintf("_wire%sValue", string(r)))
			}
		}
	}
	// variables named like the locals Wire derives from type names
	for _, d := range s.Decls {
		if d.Form != "alias" && n.pct(12, "localname") {
			r := []rune(d.Name)
			r[0] = unicode.ToLower(r[0])
			ln := string(r)
			if ln != d.Name && !IsKeyword(ln) && ln != "init" {
				add(fmt.Sprintf("var %s = 0", ln), ln)
			}
		}
	}
	if len(extra) > 0 {
		s.Extra = "package " + s.Pkgs[0].Name + "\n\n" + strings.Join(extra, "\n\n") + "\n"
	}
	s.Note = strings.TrimSpace(s.Note + " named")
}

var universeNames = map[string]bool{"error": true, "string": true, "int": true, "nil": true, "true": true, "false": true, "len": true, "make": true, "any": true, "cap": true, "append": true, "iota": true, "bool": true, "copy": true, "print": true}

func isUniverse(s string) bool { return universeNames[s] }

// usedInSignature reports whether the universe identifier name appears in the
// injector's own parameter or result types or in a type its Build arguments
// spell (the template would no longer type-check if a parameter shadowed it).
func usedInSignature(s *Spec, in *Injector, name string) bool {
	if !isUniverse(name) {
		return false
	}
	var has func(t *Type) bool
	has = func(t *Type) bool {
		if t == nil {
			return false
		}
		switch t.K {
		case "basic":
			return t.Basic == name
		case "error":
			return name == "error"
		case "map":
			return name == "string" || has(t.Elem)
		case "ifacelit":
			return name == "int" || name == "any"
		case "structlit":
			for _, f := range t.Fields {
				if has(f.T) {
					return true
				}
			}
		case "named":
			return false
		}
		return has(t.Elem)
	}
	for _, p := range in.Params {
		if has(p.T) {
			return true
		}
	}
	// types written inside the Build call (new(T), conversions in values) and
	// literals "nil"/"true" inside value expressions
	var walk func(rs []Ref) bool
	walk = func(rs []Ref) bool {
		for _, r := range rs {
			if r.IsInline() && walk(r.Inline) {
				return true
			}
			if r.Item >= 0 {
				it := &s.Items[r.Item]
				if it.Kind != "func" {
					// values and type arguments are spelled in the template
					if has(it.Out) || has(it.Conc) || has(it.Parent) {
						return true
					}
					if it.Kind == "value" || it.Kind == "ivalue" {
						return true // value expressions may use int/string/nil/... freely
					}
				}
			}
		}
		return false
	}
	return walk(in.Args)
}
