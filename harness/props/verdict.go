package props

import (
	"fmt"
	"strings"

	. "verif/harness/eng"
)

// phraseOf maps a model error class to the phrase Wire's diagnostic carries
// (each phrase is pinned by a golden file of the repository's own suite or is
// part of the property statement).
var phraseOf = map[string][]string{
	"multi":           {"multiple bindings for"},
	"missing":         {"no provider found for"},
	"cycle":           {"cycle for"},
	"unused":          {"unused "},
	"sig":             {"wrong signature for provider"},
	"dupparam":        {"provider has multiple parameters of type"},
	"dupfield":        {"provider struct has multiple fields of type"},
	"needs-err":       {"returns error but injection not allowed to fail"},
	"needs-cleanup":   {"returns cleanup but injection does not return cleanup function"},
	"bind-impl":       {"does not implement"},
	"bind-self":       {"cannot bind interface to itself"},
	"bind-notiface":   {"must be a pointer to an interface type"},
	"bind-missing":    {"does not include a provider for"},
	"field-unknown":   {"is not a field of"},
	"field-prevented": {"is prevented from injecting by wire"},
	"field-toomany":   {"fields number exceeds", "is not a field of"},
	"value-iface":     {"may not be an interface value"},
	"value-unsafe":    {"is too complex"},
	"ivalue-impl":     {"does not implement"},
	"ivalue-notiface": {"must be a pointer to an interface type"},
	"inj-sig":         {"no return values", "second return type", "third return type", "too many return values"},
	"inaccessible":    {"can't be used"},
	"notprovider":     {"is not a provider or a provider set"},
	"notstruct":       {"must be a pointer to a named struct", "must be a pointer to a struct", "does not name a struct"},
}

// typedClass: classes whose diagnostic must name one of the model's types.
var typedClass = map[string]bool{"multi": true, "missing": true}

// expectation summarises the model's verdicts over all injectors of a program.
type expectation struct {
	accept  bool
	classes map[string][]string // class -> type strings
	partial bool
}

func expect(e *ProgEval) expectation {
	x := expectation{accept: true, classes: map[string][]string{}}
	for _, v := range e.Verdicts {
		if v.PartialFields {
			x.partial = true
		}
		if !v.Accept {
			x.accept = false
			for _, me := range v.Errs {
				x.classes[me.Class] = append(x.classes[me.Class], me.Types...)
			}
		}
	}
	return x
}

// judgeVerdict compares Wire's behaviour with the reference verdict: accept
// <=> accepted; reject => non-zero status for the package, nothing generated,
// and a diagnostic of (one of) the expected class(es) naming an expected type.
// prop prefixes the violation kinds; focus, when non-empty, restricts the
// diagnostic requirement to that class if the model lists it.
func judgeVerdict(c *Ctx, e *ProgEval, prop, focus string) *Fail {
	switch e.Obs.Status {
	case "skipped":
		return nil
	case "loaderr", "silent":
		c.GenBug(fmt.Sprintf("%s program %s: %s", e.Obs.Status, e.Spec.Hash(), tailStr(e.Obs.Stderr, 1200)))
		return nil
	case "panic":
		return Failf(prop+" wire crashed", "%s", tailStr(e.Obs.Stderr, 3000))
	case "timeout":
		c.Inconclusive("wire timed out on program " + e.Spec.Hash())
		return nil
	}
	x := expect(e)
	if x.partial {
		c.Excluded("partially used FieldsOf list")
		return nil
	}
	if x.accept {
		if !e.Accepted() {
			return Failf(prop+" program the documented rules accept was rejected", "diagnostics:\n%s\n%s", e.Obs.DiagText(), tailStr(e.Obs.Stderr, 1200))
		}
		return nil
	}
	if !e.Obs.Failed() {
		return Failf(prop+" program the documented rules reject was accepted", "expected one of %v; wire reported success\n--- wire_gen.go\n%s", classList(x), e.GenSrc)
	}
	if e.GenSrc != "" {
		return Failf(prop+" output written although the package was rejected", "expected %v\ndiagnostics:\n%s", classList(x), e.Obs.DiagText())
	}
	txt := e.Obs.DiagText()
	classes := x.classes
	if focus != "" {
		if ts, ok := classes[focus]; ok {
			classes = map[string][]string{focus: ts}
		}
	}
	for cl, types := range classes {
		for _, ph := range phraseOf[cl] {
			if !strings.Contains(txt, ph) {
				continue
			}
			if !typedClass[cl] {
				return nil
			}
			for _, ts := range types {
				if strings.Contains(txt, ph+" "+ts) {
					return nil
				}
			}
		}
	}
	return Failf(prop+" rejection lacks the expected diagnostic", "expected %v (types %v)\ndiagnostics:\n%s", classList(x), classes, txt)
}

func classList(x expectation) []string { return SortedKeys(x.classes) }

// evalGen evaluates programs through wire gen only (no build, no run) when
// the model rejects them, and through the whole pipeline otherwise.
func evalVerdict(c *Ctx, build bool) func([]*Spec) []*ProgEval {
	return func(ss []*Spec) []*ProgEval {
		cl := make([]*Spec, len(ss))
		for i, s := range ss {
			cl[i] = s.Clone()
		}
		es := EvalPrograms(c, cl, PipeOpts{Build: build, Exec: build})
		for _, e := range es {
			if e.Obs.Status != "skipped" {
				c.Eval(1)
			}
		}
		return es
	}
}

// ---------------------------------------------------------------------------
// helpers over Spec used by the defect injectors

// argLists returns pointers to every argument list of the program: injector
// Build lists, named set lists and (recursively) inline lists.  The pointers
// are invalidated by appending to a list that contains inline lists.
func argLists(s *Spec) []*[]Ref {
	var out []*[]Ref
	var walk func(l *[]Ref)
	walk = func(l *[]Ref) {
		out = append(out, l)
		for i := range *l {
			if (*l)[i].IsInline() {
				walk(&(*l)[i].Inline)
			}
		}
	}
	for i := range s.Injectors {
		walk(&s.Injectors[i].Args)
	}
	for i := range s.Sets {
		if s.Sets[i].AliasOf < 0 {
			walk(&s.Sets[i].Args)
		}
	}
	return out
}

// listPkg returns the package in which list number li (index into argLists)
// is written.
func listPkg(s *Spec, li int) int {
	n := 0
	var found = -1
	var walk func(l []Ref, pkg int)
	walk = func(l []Ref, pkg int) {
		if n == li {
			found = pkg
		}
		n++
		for i := range l {
			if l[i].IsInline() {
				walk(l[i].Inline, pkg)
			}
		}
	}
	for i := range s.Injectors {
		walk(s.Injectors[i].Args, 0)
	}
	for i := range s.Sets {
		if s.Sets[i].AliasOf < 0 {
			walk(s.Sets[i].Args, s.Sets[i].Pkg)
		}
	}
	return found
}

// isBuildList reports whether list li is the direct argument list of an
// injector, and which one.
func isBuildList(s *Spec, li int) (bool, int) {
	n := 0
	res, inj := false, -1
	var walk func(l []Ref, top bool, k int)
	walk = func(l []Ref, top bool, k int) {
		if n == li && top {
			res, inj = true, k
		}
		n++
		for i := range l {
			if l[i].IsInline() {
				walk(l[i].Inline, false, k)
			}
		}
	}
	for i := range s.Injectors {
		walk(s.Injectors[i].Args, true, i)
	}
	return res, inj
}

// removeItemRefs deletes every reference to item it from all lists.
func removeItemRefs(s *Spec, it int) {
	var strip func(l []Ref) []Ref
	strip = func(l []Ref) []Ref {
		out := []Ref{}
		for _, r := range l {
			if r.Item == it {
				continue
			}
			if r.IsInline() {
				r.Inline = strip(r.Inline)
			}
			out = append(out, r)
		}
		return out
	}
	for i := range s.Injectors {
		s.Injectors[i].Args = strip(s.Injectors[i].Args)
	}
	for i := range s.Sets {
		if s.Sets[i].AliasOf < 0 {
			s.Sets[i].Args = strip(s.Sets[i].Args)
		}
	}
}

// addFreshStruct declares a new token-carrying struct in package pkg.
func addFreshStruct(s *Spec, pkg int, name string) int {
	s.Decls = append(s.Decls, Decl{Pkg: pkg, Name: name, Form: "struct", Fields: []SField{{Name: "Tok", T: Basic("int")}}})
	return len(s.Decls) - 1
}

func addItem(s *Spec, it Item) int {
	s.Items = append(s.Items, it)
	return len(s.Items) - 1
}

// typePkg returns the lowest package index from which every named type
// mentioned by t is importable (i.e. the minimum declaring package).
func typeMinPkg(s *Spec, t *Type, cur int) int {
	if t == nil {
		return cur
	}
	if t.K == "ifacelit" || t.K == "named" && s.Decls[t.Decl].Form == "iface" {
		// building a value of an interface type needs its implementing type
		if c := (&Renderer{S: s}).Implementer(t); c != nil {
			ct := c
			if ct.K == "ptr" {
				ct = ct.Elem
			}
			if ct.K == "named" && s.Decls[ct.Decl].Pkg < cur {
				cur = s.Decls[ct.Decl].Pkg
			}
		}
	}
	if t.K == "named" {
		d := &s.Decls[t.Decl]
		if d.Pkg < cur {
			cur = d.Pkg
		}
		if d.Form == "alias" {
			cur = typeMinPkg(s, d.Under, cur)
		}
		return cur
	}
	cur = typeMinPkg(s, t.Elem, cur)
	for _, f := range t.Fields {
		cur = typeMinPkg(s, f.T, cur)
	}
	return cur
}

// refreshPlan recomputes the driver plan (fault-free runs only).
func refreshPlan(s *Spec) {
	s.Plan = nil
	for k := range s.Injectors {
		s.Plan = append(s.Plan, Run{Inj: k, Fault: -1})
	}
}
