package props

import (
	"encoding/json"
	"fmt"
	"regexp"
	"strings"
	"time"

	"pgregory.net/rapid"

	. "verif/harness/eng"
)

// C20: diagnostics, not crashes.  A case is one package built from a fixed set
// of declarations plus one unusual (but type-correct) way of writing a Wire
// marker call or an unusual injector result type.

const c20Defs = `package p

import (
	"unsafe"

	"example.org/ext/xconf"
	"github.com/google/wire"
)

// types of the user's package defined over struct types of a third-party module
type XDup xconf.Dup

type XT xconf.T

type S struct {
	A int
	B string
}

func (*S) M() {}

type G[T any] struct{ V T }

func (G[T]) M() {}

type Pair[K comparable, V any] struct {
	Key K
	Val V
}

func (Pair[K, V]) M() {}

type I interface{ M() }

type C struct{}

func (C) M() {}

type F func() int

type T struct{}

func (T) Method() int { return 1 }

var (
	fv    F
	tv    T
	x     = 5
	ps    *S
	names = []string{"A"}
	args  = []interface{}{NewInt}
	up    unsafe.Pointer
)

const (
	k    = "A"
	star = "*"
	one  = 1
)

func NewS() S                  { return S{} }
func NewPS() *S                { return &S{} }
func NewInt() int              { return 1 }
func NewStr() string           { return "s" }
func NewC() C                  { return C{} }
func NewI() I                  { return C{} }
func NewSFrom(a int, b string) S { return S{a, b} }
func Gen[T any]() T            { var z T; return z }
func fieldName() string        { return "A" }
func pair() (int, wire.ProviderSet) { return 0, wire.NewSet(NewInt) }

var a, Set2 = pair()

var SetOK = wire.NewSet(NewInt)

var SetS = wire.NewSet(NewS)

type Holder struct {
	C  C
	PS *S
	I  I
}

func NewHolder() Holder { return Holder{} }

func NewPHolder() *Holder { return &Holder{} }

type I2 interface{ M() }

type One struct{ A int }

type Ünit struct{ A int }

func NewÜnit() Ünit { return Ünit{} }

func UseÜnit(Ünit) *One { return nil }

type ünit2 struct{ A int }

func newünit2() *ünit2 { return nil }
`

// c20Conf is a helper package that does not depend on Wire.
const c20Conf = `package conf

type T struct {
	A int
	B string
}

func (T) Method() int { return 1 }

func (*T) M() {}

type G[P any] struct{ V P }

type I interface{ M() }

type C struct{}

func (C) M() {}

var Default = 7

var Default2 = T{A: 2}

var PT = &T{A: 3}

var Fn = func() int { return 4 }

const Const = "c"

func New() *T { return &T{} }

func NewT() T { return T{} }

func Bad() (*T, int) { return nil, 0 }

type Dup struct{ A, B int }

type Unexp struct {
	A int
	b string
}
`

// c20Ext is a package of a third-party module (outside the user's sources).
const c20Ext = `package xconf

import "github.com/google/wire"

type T struct {
	A int
	B string
}

func (*T) M() {}

type I interface{ M() }

type C struct{}

func (C) M() {}

type Dup struct{ A, B int }

type Unexp struct {
	A int
	b string
}

var Default = 7

var Fn = func() int { return 4 }

func NewT() T { return T{} }

func Bad() (*T, int) { return nil, 0 }

func Bad2() {}

var OKSet = wire.NewSet(NewT)

var BadSet = wire.NewSet(Bad)

var SuperSet = wire.NewSet(wire.NewSet(BadSet))

var DupSet = wire.NewSet(wire.Struct(new(Dup), "*"))

var BadBind = wire.NewSet(NewT, wire.Bind(new(I), new(T)))

var BadValue = wire.NewSet(wire.Value(Fn()))

var BadFields = wire.NewSet(wire.FieldsOf(new(T), "Nope"))

var TwoSet = wire.NewSet(NewT, NewT)

var NotASet = wire.ProviderSet{}

var Unknown = wire.NewSet(Default)

var LoneBinding = wire.Bind(new(I), new(*T))

var LoneValue = wire.Value(7)

var LoneFields = wire.FieldsOf(new(T), "A")

var LoneStruct = wire.Struct(new(T), "*")
`

// forms: text uses "wire." which is rewritten for dot / renamed imports.
var c20Item = []string{
	"nil", "true", "x", "k", `"str"`, "42", "1.5", "NewS", "(NewS)", "((NewS))", "S{}", "&S{}", "S{A: 1}", "*new(S)", "new(S)",
	"func() int { return 1 }", "func() S { return S{} }", "Gen[int]", "Gen[S]", "tv.Method", "T.Method", "C.M", "(*S).M", "fv", "F(nil)",
	"SetOK", "(SetOK)", "Set2", "a", "wire.NewSet", "wire.NewSet()", "wire.NewSet(wire.NewSet())", "wire.Build", "wire.Struct", "wire.Bind", "wire.Value", "wire.FieldsOf", "wire.InterfaceValue",
	"names", "new(int)", "struct{}{}", "[]int{1}", "map[string]int{}", "G[int]{}", "Pair[int, string]{}", "up", "unsafe.Pointer(nil)", "wire.ProviderSet{}", "&wire.ProviderSet{}", "*new(wire.ProviderSet)",
	"wire.Binding{}", "wire.ProvidedValue{}", "wire.StructProvider{}", "wire.StructFields{}", "[]interface{}{NewS}", "interface{}(NewS)", "any(NewS)", "I(nil)", "error(nil)", "C{}", "ps", "one", "iota_",
	"wire.NewSet(NewS, nil)", "wire.NewSet(nil)", "wire.NewSet(x)", "wire.NewSet(wire.Value)", "wire.Build(NewS)", "wire.NewSet(wire.Build(NewS))", "(wire.NewSet)(NewInt)", "(wire.NewSet(NewInt))",
	"wire.NewSet(args...)", "wire.NewSet(names)", "conf.Default", "conf.Const", "conf.New", "conf.T{}", "conf.NewT", "conf.PT", "conf.Fn", "os.Stdin", "fmt.Sprint", "errors.New", "conf.T.Method", "conf.Default2", "os.Exit", "errors.Is", "os.Args", "fmt.Errorf", "conf.Bad", "psets.BadSet", "psets.OKSet", "psets.Nested", "pair", "NewSFrom", "fieldName", "fieldName()", "len", "new", "make([]int, 1)", "S.M", "struct{ A int }{1}", "[1]S{}", "chan int(nil)", "(chan int)(nil)", "conf.Dup{}", "&conf.Dup{}", "conf.Unexp{}",
	"xconf.LoneBinding", "xconf.LoneValue", "xconf.LoneFields", "xconf.LoneStruct", "wire.NewSet(xconf.LoneBinding)", "XDup{}", "&XDup{}", "XT{}", "xconf.NewT", "xconf.T{}", "xconf.Dup{}", "&xconf.Dup{}", "xconf.Unexp{}", "xconf.Bad", "xconf.Bad2", "xconf.OKSet", "xconf.BadSet", "xconf.SuperSet", "xconf.DupSet", "xconf.BadBind", "xconf.BadValue", "xconf.BadFields", "xconf.TwoSet", "xconf.NotASet", "xconf.Unknown", "xconf.Default", "xconf.Fn",
	"wire.NewSet(xconf.SuperSet)", "wire.NewSet(xconf.OKSet, xconf.TwoSet)",
}

var c20StructArg0 = []string{"new(XDup)", "new(XT)", "new(One)", "new(Ünit)", "new(xconf.Dup)", "new(xconf.Unexp)", "new(xconf.T)", "new(conf.Dup)", "new(conf.Unexp)", "new(conf.T)", "new(conf.G[int])", "new(S)", "(new(S))", "&S{}", "(*S)(nil)", "new(struct{ A int })", "new(G[int])", "new(Pair[int, string])", "new(int)", "new(*S)", "nil", "S{}", "new(I)", "new(F)", "ps", "NewPS()", "new(T)", "new(C)", "&struct{ A int }{}", "x", "new(wire.ProviderSet)", "new([]S)", "new(map[string]S)", "interface{}(new(S))", "any(nil)", "Gen[*S]()"}

var c20Names = []string{`"V", "V"`, `"A", "A", "A"`, `"B", "B"`, "", `"A"`, `"*"`, "k", "star", "names...", "`A`", `"A", "A"`, `""`, `"a"`, `"A" + ""`, "string(k)", `"A", "B"`, `"B", "A"`, `"*", "A"`, `"A", "*"`, `"V"`, `"Key"`, `"C"`, "fieldName()", `k, "B"`, `"\x41"`, `"A "`, "[]string{\"A\"}...", "nil...", `"*", "*"`, "`*`"}

var c20FieldsArg0 = []string{"new(XDup)", "new(*XT)", "new(One)", "new(*Ünit)", "new(xconf.Dup)", "new(*xconf.Unexp)", "new(*xconf.T)", "new(conf.Dup)", "new(*conf.Unexp)", "new(conf.T)", "new(*conf.T)", "new(S)", "new(*S)", "new(**S)", "new(*int)", "new(int)", "nil", "&S{}", "new(G[int])", "new(*G[int])", "new(struct{ A int })", "new(*struct{ A int })", "new(I)", "ps", "&ps", "new(T)", "new(*T)", "(**S)(nil)", "new(Pair[int, string])", "new([]S)", "x", "any(new(S))"}

var c20BindArg0 = []string{"new(xconf.I)", "new(conf.I)", "new(I)", "new(S)", "nil", "(*I)(nil)", "new(*I)", "I(nil)", "new(interface{ M() })", "new(any)", "new(error)", "x", "new(F)", "new(G[int])", "&ps", "new(int)"}
var c20BindArg1 = []string{"new(xconf.C)", "new(*xconf.T)", "new(xconf.T)", "new(conf.C)", "new(*conf.T)", "new(C)", "new(*S)", "new(S)", "C{}", "nil", "(*C)(nil)", "new(I)", "new(**S)", "new(G[int])", "&C{}", "new(*C)", "x", "new(*G[int])", "new(Pair[int, string])", "new(F)", "ps", "new(int)", "NewC()"}

var c20ValueArg = []string{"func() int { _ = 1; return 2 }()", "func(_ int) int { return 2 }", "xconf.Default", "xconf.T{A: 1}", "xconf.Fn", "xconf.Fn()", "xconf.Unexp{}", "conf.Default", "conf.T{A: 1}", "&conf.Default2", "conf.PT", "conf.Const", "conf.Fn", "os.Stdin", "conf.T{}.A", "NewS", "S{}", "func() {}", "Gen[int]", "G[int]{V: 1}", "Pair[int, string]{Key: 1}", "[...]int{1}", "struct{ A int }{1}", "tv.Method", "x", "&x", "*&x", "I(C{})", "any(1)", "unsafe.Pointer(nil)", "unsafe.Sizeof(x)", `len("a")`, "1 << 3", "'a'", "1.5", "2i", `"s"[0]`, "names[0]", "k", "one", "fv", "F(nil)", "up", "ps", "*ps", "ps.A", "[]S{{A: 1}}", "map[string]S{}", "(S{})", "S{}.A", "&S{}", "[2]int{}", "chan int(nil)", "(<-chan int)(nil)", "error(nil)", "true", "!true", "-x", "x + 1", "<-make(chan int)", "NewInt()", "fv()", "Gen[int]()", "new(S)", "interface{ M() }(C{})", "tv", "T{}", "C.M", "func(a int) int { return a }", "iota_", "a"}

var c20IfaceVal1 = []string{"func() I { _ = 1; return C{} }()", "func() I { switch v := any(1).(type) { default: _ = v }; return C{} }()", "func() C { var _, b = 1, 2; _ = b; return C{} }()", "func(_ int) I { return C{} }(1)", "xconf.C{}", "&xconf.T{}", "xconf.T{}", "C{}", "nil", "1", "G[int]{}", "Pair[int, string]{}", "&S{}", "ps", "S{}", "NewC()", "I(C{})", "x", "new(S)", "fv", "tv", "Gen[C]()", "NewI()", "(*S)(nil)"}

// result types with a provider expression
var c20Results = [][2]string{
	{"int", "0"}, {"string", `""`}, {"bool", "false"}, {"float64", "0"}, {"complex128", "0"}, {"complex64", "0"}, {"uintptr", "0"}, {"unsafe.Pointer", "nil"},
	{"S", "S{}"}, {"*S", "nil"}, {"[]int", "nil"}, {"[2]int", "[2]int{}"}, {"[0]S", "[0]S{}"}, {"map[string]int", "nil"}, {"chan int", "nil"}, {"<-chan int", "nil"}, {"chan<- int", "nil"},
	{"func()", "nil"}, {"func(int) string", "nil"}, {"I", "nil"}, {"any", "nil"}, {"interface{}", "nil"}, {"struct{}", "struct{}{}"}, {"struct{ A int }", "struct{ A int }{}"},
	{"G[int]", "G[int]{}"}, {"*G[int]", "nil"}, {"Pair[int, string]", "Pair[int, string]{}"}, {"F", "nil"}, {"T", "T{}"}, {"error", "nil"}, {"[]S", "nil"}, {"**S", "nil"}, {"*int", "nil"},
	{"rune", "0"}, {"byte", "0"}, {"int8", "0"}, {"uint64", "0"}, {"float32", "0"}, {"*[2]int", "nil"}, {"map[S]*S", "nil"}, {"[][]int", "nil"}, {"interface{ M() }", "nil"}, {"*unsafe.Pointer", "nil"},
	{"Ünit", "Ünit{}"}, {"*Ünit", "nil"}, {"[]Ünit", "nil"}, {"*ünit2", "nil"}, {"One", "One{}"},
	{"MyInt", "0"}, {"MyStr", `""`}, {"MyBool", "false"}, {"MyFloat", "0"}, {"MyComplex", "0"}, {"MyPtr", "nil"}, {"MySlice", "nil"}, {"MyArr", "MyArr{}"}, {"MyMap", "nil"}, {"MyChan", "nil"}, {"MyIface", "nil"}, {"MyUnsafe", "nil"}, {"MyStruct", "MyStruct{}"}, {"AliasInt", "0"}, {"AliasS", "S{}"},
}

const c20ResultDefs = `
type MyInt int
type MyStr string
type MyBool bool
type MyFloat float32
type MyComplex complex64
type MyPtr *int
type MySlice []int
type MyArr [3]string
type MyMap map[string]int
type MyChan chan int
type MyIface interface{ M() }
type MyUnsafe unsafe.Pointer
type MyStruct struct{ X int }
type AliasInt = int
type AliasS = S
`

// injector shapes (whole function text); R-less.
var c20Injectors = []string{
	"func Inject() S { wire.Build(NewS); return S{} }",
	"func Inject() S { panic(wire.Build(NewS)) }",
	"func Inject() (s S) { wire.Build(NewS); return }",
	"func Inject() (s S, err error) { wire.Build(NewS); return }",
	"func Inject() (S, error) { wire.Build(NewS); return S{}, nil }",
	"func Inject() S { wire.Build(); return S{} }",
	"func Inject() S { panic(wire.Build()) }",
	"func Inject() S { (wire.Build)(NewS); return S{} }",
	"func Inject() S { panic((wire.Build(NewS))) }",
	"func Inject() S { wire.Build(SetS); return S{} }",
	"func Inject(s S) S { wire.Build(); return S{} }",
	"func Inject(s ...S) []S { wire.Build(); return nil }",
	"func Inject(s S, t S) S { wire.Build(); return S{} }",
	"func Inject(_ int, _ string) S { wire.Build(NewSFrom); return S{} }",
	"func Inject(int, string) S { wire.Build(NewSFrom); return S{} }",
	"func Inject() { wire.Build(NewS) }",
	"func Inject() (S, S) { wire.Build(NewS); return S{}, S{} }",
	"func Inject() (S, error, func()) { wire.Build(NewS); return S{}, nil, nil }",
	"func Inject() (S, func(), error, int) { wire.Build(NewS); return S{}, nil, nil, 0 }",
	"func (T) Inject() S { wire.Build(NewS); return S{} }",
	"func (t *T) Inject() S { wire.Build(NewS); return S{} }",
	"func Inject[X any]() S { wire.Build(NewS); return S{} }",
	"func Inject() S { wire.Build(NewS, NewS); return S{} }",
	"func Inject() S { ; wire.Build(NewS); ; return S{} }",
	"func Inject() S { panic(wire.Build(NewS), ) }",
	"func Inject() int { panic(wire.Build(wire.Value(one))) }",
	"func Inject() string { panic(wire.Build(wire.Value(k))) }",
	"func Inject() I { panic(wire.Build(NewC, wire.Bind(new(I), new(C)))) }",
	"func Inject() *int { panic(wire.Build(NewPS, wire.FieldsOf(new(*S), \"A\"))) }",
	"func Inject() S { return S{} }",
	"func Inject() S { panic(\"not an injector\") }",
	"func Inject() string { return wire.Build(NewS) }",
	"func Inject() S { _ = wire.Build(NewS); return S{} }",
	"var _ = wire.Build(NewS)\n\nfunc Inject() S { wire.Build(NewS); return S{} }",
	"func Inject() S { wire.Build(NewS); return S{} }\n\nfunc Inject2() S { wire.Build(NewS); return S{} }",
	"func Inject() G[int] { wire.Build(Gen[G[int]]); return G[int]{} }",
	"func Inject() Pair[int, string] { wire.Build(wire.Value(Pair[int, string]{Key: 1})); return Pair[int, string]{} }",
	"func Inject() I { panic(wire.Build(wire.InterfaceValue(new(I), Pair[int, string]{Key: 1}))) }",
	"func Inject() *G[int] { wire.Build(wire.Struct(new(G[int]), \"*\"), NewInt); return nil }",
	"func Inject() (unsafe.Pointer, error) { panic(wire.Build(NewUP)) }\n\nfunc NewUP() (unsafe.Pointer, error) { return nil, nil }",
	"func Inject() I { panic(wire.Build(NewHolder, wire.FieldsOf(new(Holder), \"C\"), wire.Bind(new(I), new(C)))) }",
	"func Inject() I { panic(wire.Build(NewPHolder, wire.FieldsOf(new(*Holder), \"PS\"), wire.Bind(new(I), new(*S)))) }",
	"func Inject() I { panic(wire.Build(NewPHolder, wire.FieldsOf(new(*Holder), \"C\"), wire.Bind(new(I), new(*C)))) }",
	"func Inject() I2 { panic(wire.Build(NewHolder, wire.FieldsOf(new(Holder), \"I\"), wire.Bind(new(I2), new(I)))) }",
	"var FSet = wire.NewSet(NewHolder, wire.FieldsOf(new(Holder), \"C\"), wire.Bind(new(I), new(C)))\n\nfunc Inject() I { panic(wire.Build(FSet)) }",
	"func Inject() I { panic(wire.Build(wire.Value(C{}), wire.Bind(new(I), new(C)))) }",
	"func Inject() I2 { panic(wire.Build(wire.InterfaceValue(new(I), C{}), wire.Bind(new(I2), new(I)))) }",
	"func Inject(c C) I { panic(wire.Build(wire.Bind(new(I), new(C)))) }",
	"func Inject() *One { panic(wire.Build(NewÜnit, UseÜnit)) }",
	"func Inject(Ünit) *One { panic(wire.Build(UseÜnit)) }",
	"func Inject(Ünit, *ünit2) *One { panic(wire.Build(UseÜnit)) }",
	"func Inject() (*One, error) { panic(wire.Build(wire.Value(Ünit{A: 1}), UseÜnit)) }",
	"func Inject(h Holder) I { panic(wire.Build(wire.FieldsOf(new(Holder), \"C\"), wire.Bind(new(I), new(C)))) }",
	"func Inject() I2 { panic(wire.Build(NewC, wire.Bind(new(I), new(C)), wire.Bind(new(I2), new(I)))) }",
	"func Inject() I { panic(wire.Build(wire.Struct(new(S), \"*\"), NewInt, NewStr, wire.Bind(new(I), new(*S)))) }",
	"func Inject() I { panic(wire.Build(wire.Struct(new(Holder), \"C\"), NewC, wire.FieldsOf(new(Holder), \"PS\"), wire.Bind(new(I), new(*S)))) }",
	"func Inject() (I, func(), error) { panic(wire.Build(NewHolder, wire.FieldsOf(new(Holder), \"C\"), wire.Bind(new(I), new(C)))) }",
}

var reBuildCall = regexp.MustCompile(`\bBuild\)?\(`)

// C20Case is one form program.
type C20Case struct {
	Cat    string `json:"cat"`
	Form   string `json:"form"`
	Ctx    string `json:"ctx"`    // build, setvar, nested, unusedvar
	Import string `json:"import"` // plain, dot, alias
	Err    bool   `json:"err"`    // result-type cases: provider can fail
	Cl     bool   `json:"cl"`
	prog   string
}

func (cs *C20Case) key() string { b, _ := json.Marshal(cs); return HashString(string(b)) }

func (cs *C20Case) files() map[string]string {
	var w strings.Builder
	w.WriteString("//go:build wireinject\n\npackage p\n\n")
	imp := `"github.com/google/wire"`
	switch cs.Import {
	case "dot":
		imp = `. "github.com/google/wire"`
	case "alias":
		imp = `w "github.com/google/wire"`
	}
	body := ""
	needUnsafe := false
	defsExtra := ""
	switch cs.Cat {
	case "result":
		parts := strings.SplitN(cs.Form, "|", 2)
		rt, zero := parts[0], parts[1]
		res := rt
		pres := rt
		ret := zero
		if cs.Cl {
			res += ", func()"
			pres += ", func()"
			ret += ", nil"
		}
		if cs.Err {
			res += ", error"
			pres += ", error"
			ret += ", nil"
		}
		if cs.Cl || cs.Err {
			res, pres = "("+res+")", "("+pres+")"
		}
		body = fmt.Sprintf("func NewR() %s { return %s }\n\nfunc NewDep() (*S, func(), error) { return nil, nil, nil }\n\nfunc UseDep(*S) MyDep { return 0 }\n\ntype MyDep int\n\nfunc Inject() %s {\n\tpanic(wire.Build(NewR))\n}\n\nfunc Inject2() (MyDep, func(), error) {\n\tpanic(wire.Build(NewDep, UseDep))\n}\n", pres, ret, res)
		// a second injector whose result of this type comes after a provider that can fail
		res2 := rt + ", func(), error"
		body += fmt.Sprintf("\nfunc NewR3(*S) %s { return %s }\n\nfunc Inject3() (%s) {\n\tpanic(wire.Build(NewDep, NewR3))\n}\n", rt, zero, res2)
		needUnsafe = strings.Contains(rt, "unsafe.")
	case "injector":
		body = cs.Form + "\n"
		needUnsafe = strings.Contains(cs.Form, "unsafe.")
	default:
		form := cs.Form
		switch cs.Cat {
		case "struct":
			form = "wire.Struct(" + form + ")"
		case "fields":
			form = "wire.FieldsOf(" + form + ")"
		case "bind":
			form = "wire.Bind(" + form + ")"
		case "value":
			form = "wire.Value(" + form + ")"
		case "ivalue", "ivalue-needed":
			form = "wire.InterfaceValue(" + form + ")"
		}
		needUnsafe = strings.Contains(form, "unsafe.")
		if strings.Contains(form, "iota_") {
			form = strings.ReplaceAll(form, "iota_", "iotaC")
			defsExtra = "\nconst iotaC = iota\n"
		}
		switch cs.Ctx {
		case "build":
			body = fmt.Sprintf("func Inject() S {\n\tpanic(wire.Build(NewS, %s))\n}\n", form)
		case "buildonly":
			body = fmt.Sprintf("func Inject() S {\n\tpanic(wire.Build(%s))\n}\n", form)
		case "setvar":
			body = fmt.Sprintf("var FormSet = wire.NewSet(%s)\n\nfunc Inject() S {\n\tpanic(wire.Build(NewS, FormSet))\n}\n", form)
		case "nested":
			body = fmt.Sprintf("func Inject() S {\n\tpanic(wire.Build(NewS, wire.NewSet(wire.NewSet(%s))))\n}\n", form)
		case "unusedvar":
			body = fmt.Sprintf("var FormSet = wire.NewSet(%s)\n\nfunc Inject() S {\n\tpanic(wire.Build(NewS))\n}\n", form)
		case "directvar":
			body = fmt.Sprintf("var FormVar = %s\n\nfunc Inject() S {\n\tpanic(wire.Build(NewS, FormVar))\n}\n", form)
		case "needed":
			// the injector's result is what the form provides (an interface
			// value of type I), so that code is generated from the form
			body = fmt.Sprintf("func Inject() I {\n\tpanic(wire.Build(%s))\n}\n", form)
		case "needed-set":
			body = fmt.Sprintf("var FormSet = wire.NewSet(%s)\n\nfunc Inject() (I, error) {\n\tpanic(wire.Build(FormSet))\n}\n", form)
		}
	}
	switch cs.Import {
	case "dot":
		body = strings.ReplaceAll(body, "wire.", "")
	case "alias":
		body = strings.ReplaceAll(body, "wire.", "w.")
	}
	w.WriteString("import (\n")
	if needUnsafe {
		w.WriteString("\t\"unsafe\"\n")
	}
	for _, std := range []string{"os", "fmt", "errors"} {
		if strings.Contains(body, std+".") {
			fmt.Fprintf(&w, "\t%q\n", std)
		}
	}
	if strings.Contains(strings.ReplaceAll(body, "xconf.", ""), "conf.") {
		fmt.Fprintf(&w, "\t%q\n", ProgPath(cs.prog)+"/conf")
	}
	if strings.Contains(body, "xconf.") {
		fmt.Fprintf(&w, "\t%q\n", ExtModPath+"/xconf")
	}
	if strings.Contains(body, "psets.") {
		fmt.Fprintf(&w, "\t%q\n", ProgPath(cs.prog)+"/psets")
	}
	fmt.Fprintf(&w, "\n\t%s\n)\n\n", imp)
	w.WriteString(body)
	w.WriteString(defsExtra)
	psets := "package psets\n\nimport (\n\t\"github.com/google/wire\"\n\n\t\"" + ProgPath(cs.prog) + "/conf\"\n)\n\nvar OKSet = wire.NewSet(conf.NewT)\n\nvar BadSet = wire.NewSet(conf.Bad)\n\nvar Nested = wire.NewSet(OKSet, wire.NewSet(wire.Value(conf.Default), conf.Fn))\n"
	return map[string]string{"defs.go": c20Defs + c20ResultDefs, "wire.go": w.String(), "conf/conf.go": c20Conf, "psets/psets.go": psets}
}

// all enumerates the catalogue (for the thorough tier).
func c20All() []*C20Case {
	var out []*C20Case
	ctxs := []string{"build", "setvar", "nested", "unusedvar", "buildonly", "directvar"}
	imps := []string{"plain", "dot", "alias"}
	add := func(cat, form string) {
		for _, cx := range ctxs {
			for _, im := range imps {
				out = append(out, &C20Case{Cat: cat, Form: form, Ctx: cx, Import: im})
			}
		}
	}
	for _, f := range c20Item {
		add("item", f)
	}
	for _, a0 := range c20StructArg0 {
		for _, n := range c20Names {
			f := a0
			if n != "" {
				f += ", " + n
			}
			add("struct", f)
		}
	}
	for _, a0 := range c20FieldsArg0 {
		for _, n := range c20Names {
			if n == "" {
				continue
			}
			add("fields", a0+", "+n)
		}
	}
	for _, a0 := range c20BindArg0 {
		for _, a1 := range c20BindArg1 {
			add("bind", a0+", "+a1)
		}
	}
	for _, v := range c20ValueArg {
		add("value", v)
	}
	for _, a0 := range c20BindArg0 {
		for _, a1 := range c20IfaceVal1 {
			add("ivalue", a0+", "+a1)
			if a0 == "new(I)" || a0 == "(*I)(nil)" {
				for _, cx := range []string{"needed", "needed-set"} {
					for _, im := range imps {
						out = append(out, &C20Case{Cat: "ivalue-needed", Form: a0 + ", " + a1, Ctx: cx, Import: im})
					}
				}
			}
		}
	}
	for _, r := range c20Results {
		for _, e := range []bool{false, true} {
			for _, cl := range []bool{false, true} {
				for _, im := range imps {
					out = append(out, &C20Case{Cat: "result", Form: r[0] + "|" + r[1], Import: im, Err: e, Cl: cl})
				}
			}
		}
	}
	for _, in := range c20Injectors {
		for _, im := range imps {
			out = append(out, &C20Case{Cat: "injector", Form: in, Import: im})
		}
	}
	return out
}

func genC20(all []*C20Case) *rapid.Generator[*C20Case] {
	return rapid.Custom(func(t *rapid.T) *C20Case {
		// category first so that small categories are not drowned by the big cross products
		cat := rapid.SampledFrom([]string{"item", "item", "struct", "struct", "fields", "bind", "value", "value", "ivalue", "ivalue-needed", "result", "result", "injector"}).Draw(t, "cat")
		var idx []int
		for i, c := range all {
			if c.Cat == cat {
				idx = append(idx, i)
			}
		}
		return all[idx[rapid.IntRange(0, len(idx)-1).Draw(t, "case")]]
	})
}

type c20Obs struct {
	Gen, Check *ProgObs
	GenSrc     string
	BuildErr   string
	Root       string
}

func c20Eval(c *Ctx) func(cs []*C20Case) []c20Obs {
	return func(cs []*C20Case) []c20Obs {
		out := make([]c20Obs, len(cs))
		const chunk = 250
		type rng struct{ lo, hi int }
		var rs []rng
		for lo := 0; lo < len(cs); lo += chunk {
			hi := lo + chunk
			if hi > len(cs) {
				hi = len(cs)
			}
			rs = append(rs, rng{lo, hi})
		}
		Parallel(len(rs), 3, func(ri int) {
			w, err := NewWorkspace(c)
			if err != nil {
				c.Inconclusive("workspace: " + err.Error())
				return
			}
			defer w.Remove()
			w.AddExt(map[string]string{"xconf/xconf.go": c20Ext})
			var names []string
			for i := rs[ri].lo; i < rs[ri].hi; i++ {
				n := fmt.Sprintf("f%05d", i)
				cs[i].prog = n
				w.AddProg(n, cs[i].files())
				names = append(names, n)
			}
			gen := w.GenAll(names, GenOpts{})
			var loaded []string
			for _, n := range names {
				if g := gen[n]; g != nil && g.Status != "loaderr" {
					loaded = append(loaded, n)
				}
			}
			chk := w.GenAll(loaded, GenOpts{Cmd: "check", ForceSingle: func(stderr string) bool {
				for _, line := range strings.Split(stderr, "\n") {
					if strings.HasPrefix(line, "wire: ") && line != "wire: error loading packages" && !HasPosition(line, w.UserRoot()) {
						return true
					}
				}
				return false
			}})
			var ok []string
			for k, i := 0, rs[ri].lo; i < rs[ri].hi; i, k = i+1, k+1 {
				n := names[k]
				out[i] = c20Obs{Gen: gen[n], Check: chk[n], GenSrc: w.GenFile(n, "wire_gen.go"), Root: w.UserRoot()}
				if gen[n] != nil && gen[n].Status == "done" && !gen[n].Failed() && out[i].GenSrc != "" {
					ok = append(ok, n)
				}
			}
			if len(ok) > 0 {
				berr, err := w.BuildAll(ok, 10*time.Minute)
				if err != nil {
					c.Inconclusive("go build: " + err.Error())
				}
				for k, i := 0, rs[ri].lo; i < rs[ri].hi; i, k = i+1, k+1 {
					out[i].BuildErr = berr[names[k]]
				}
			}
		})
		return out
	}
}

// c20KnownInvalidInjector recognises the recorded finding D15: the
// invalid-injector diagnostic carries no position (text pinned by the golden
// file InvalidInjector of the repository's suite).

func judgeC20(c *Ctx, cs *C20Case, o c20Obs, count bool) *Fail {
	if o.Gen == nil || o.Check == nil {
		return nil
	}
	// type errors in the rendered package: the form is not type-correct -> out of domain
	for _, ob := range []*ProgObs{o.Gen} {
		if ob.Status == "loaderr" {
			if count {
				c.Excluded("form does not type-check (out of domain)")
			}
			return nil
		}
		if ob.Status == "skipped" {
			return nil
		}
	}
	if count {
		c.Eval(1)
		c.Class("cat=" + cs.Cat + "/import=" + cs.Import)
		c.Nontrivial(cs.key())
	}
	for name, ob := range map[string]*ProgObs{"gen": o.Gen, "check": o.Check} {
		switch ob.Status {
		case "panic":
			return Failf("C20 wire crashed", "wire %s on form %q (%s, %s import):\n%s", name, cs.Form, cs.Ctx, cs.Import, tailStr(ob.Stderr, 2500))
		case "timeout":
			return Failf("C20 wire did not terminate", "wire %s on form %q", name, cs.Form)
		case "silent":
			return Failf("C20 wire exited non-zero without any output", "wire %s on form %q exit=%d", name, cs.Form, ob.Exit)
		}
	}
	// gen: non-zero => at least one positioned diagnostic inside the module
	if o.Gen.Failed() {
		pos := false
		for _, d := range o.Gen.Diags() {
			if HasPosition(d, o.Root) {
				pos = true
			}
		}
		if !pos {
			return Failf("C20 failure without a positioned diagnostic", "wire gen on form %q (%s, %s import) reported:\n%s", cs.Form, cs.Ctx, cs.Import, o.Gen.DiagText())
		}
	} else if o.Gen.Exit != 0 && o.Gen.Alone {
		return Failf("C20 non-zero status without a failing package", "stderr: %s", tailStr(o.Gen.Stderr, 1500))
	}
	if o.Check.Exit != 0 && o.Check.Alone {
		if !HasPosition(o.Check.Stderr, o.Root) {
			return Failf("C20 failure without a positioned diagnostic", "wire check on form %q reported:\n%s", cs.Form, tailStr(o.Check.Stderr, 1500))
		}
	}
	// status 0 => every injector template was implemented: a call of the
	// marker function Build in the output means a template was copied as an
	// ordinary declaration (and would return its stub value at run time)
	if cs.Cat == "injector" && !o.Gen.Failed() && o.GenSrc != "" && reBuildCall.MatchString(o.GenSrc) && !strings.Contains(cs.Form, "not an injector") && !strings.Contains(cs.Form, "var _ = wire.Build") && !strings.Contains(cs.Form, "return wire.Build") && !strings.Contains(cs.Form, "_ = wire.Build") {
		return Failf("C20 success reported but an injector template was copied instead of implemented", "form %q (%s, %s import)\n--- wire_gen.go\n%s", cs.Form, cs.Ctx, cs.Import, o.GenSrc)
	}
	// ... and a template that calls Build in statement position (parenthesised
	// or not) must have got an implementation at all
	if cs.Cat == "injector" && !o.Gen.Failed() && o.Gen.Status == "done" {
		f := cs.Form
		isTemplate := (strings.Contains(f, "{ wire.Build(") || strings.Contains(f, "{ (wire.Build") || strings.Contains(f, "panic(wire.Build(") || strings.Contains(f, "panic((wire.Build(") || strings.Contains(f, "; wire.Build(")) &&
			!strings.Contains(f, "var _ = wire.Build")
		if isTemplate && !strings.Contains(o.GenSrc, "Inject(") && !strings.Contains(o.GenSrc, "Inject[") {
			return Failf("C20 success reported but an injector template got no implementation", "form %q (%s import)\n--- wire_gen.go\n%s", cs.Form, cs.Import, o.GenSrc)
		}
	}
	// status 0 => the generated package compiles (C01 applies); methods and
	// generic functions used as injector templates are outside the documented forms
	if !o.Gen.Failed() && o.GenSrc != "" && o.BuildErr != "" {
		if cs.Cat == "injector" && (strings.HasPrefix(cs.Form, "func (") || strings.Contains(cs.Form, "Inject[")) {
			if count {
				c.Excluded("method / generic function as injector template")
			}
			return nil
		}
		return Failf("C20 success reported but the generated package does not compile", "form %q (%s, %s import):\n%s\n--- wire_gen.go\n%s", cs.Form, cs.Ctx, cs.Import, o.BuildErr, o.GenSrc)
	}
	return nil
}

func init() {
	all := c20All()
	Register(&Property{
		ID: "C20", Level: "exploration",
		Rule:        fmt.Sprintf("catalogue of %d form programs: every marker function (Build/NewSet item position, Struct, FieldsOf, Bind, Value, InterfaceValue) x argument position x spelling (identifiers of every object kind, nil/true/constants, literals, address-of, conversions, anonymous and generic types incl. multi-parameter instantiations, instantiated generic functions, function literals, method values/expressions, non-literal / raw / constant / spread field names, multi-value var specs, zero-valued marker structs, parenthesised calls) x context (direct in Build, alone in Build, set variable, doubly nested inline set, set variable no injector uses, plain variable) x import style (plain, dot, renamed), plus %d result types x {error, cleanup} x import style with a provider that can fail before the result is built, plus %d injector template shapes; forms that do not type-check are out of domain and counted. Both `wire gen` and `wire check` run on every case. Oracle: terminates, status 0 or 1, no Go panic, a non-zero status comes with a diagnostic carrying file:line:col inside the rendered module, status 0 => the package compiles. quick: rapid-sampled by category; thorough: the whole catalogue (exhaustive over the catalogue). Non-trivial = every type-correct case (all are outside the plain documented spelling or stress a result kind); distinct by case hash.", len(all), len(c20Results), len(c20Injectors)),
		Assumptions: []string{"the catalogue is hand-written; forms outside it are not explored", "known finding D15 (invalid-injector diagnostic without position, pinned by golden file InvalidInjector) is recognised by its message and cause"},
		Shards: func(tier string) int {
			if tier == "thorough" {
				return 12
			}
			return 8
		},
		Timeout: func(tier string) time.Duration {
			if tier == "thorough" {
				return 120 * time.Minute
			}
			return 25 * time.Minute
		},
		Run: func(c *Ctx) {
			ev := c20Eval(c)
			if c.Thorough() {
				var mine []*C20Case
				for i, cs := range all {
					if i%c.NShards == c.Shard {
						mine = append(mine, cs)
					}
				}
				obs := ev(mine)
				for i, cs := range mine {
					if i%400 == 0 {
						c.Sample(map[string]interface{}{"case": cs, "gen_exit": obs[i].Gen != nil && obs[i].Gen.Failed()})
					}
					if f := judgeC20(c, cs, obs[i], true); f != nil {
						c.Violation(f.Kind, f.Msg, cs)
						return
					}
				}
				c.Res.Exhaustive = true
				return
			}
			n := 0
			Batched(c, "C20", 350, 60*time.Second,
				func(t *rapid.T) *C20Case { return genC20(all).Draw(t, "case") },
				func(cs *C20Case) string { return cs.key() }, ev,
				func(cs *C20Case, o c20Obs) *Fail {
					n++
					if n%70 == 1 {
						st := "?"
						if o.Gen != nil {
							st = fmt.Sprintf("status=%s failed=%v", o.Gen.Status, o.Gen.Failed())
						}
						c.Sample(map[string]interface{}{"case": cs, "gen": st})
					}
					return judgeC20(c, cs, o, true)
				})
		},
		ReplayCase: func(c *Ctx, kind string, raw json.RawMessage) *Fail {
			var cs C20Case
			if err := json.Unmarshal(raw, &cs); err != nil {
				c.Inconclusive("bad replay case: " + err.Error())
				return nil
			}
			obs := c20Eval(c)([]*C20Case{&cs})
			return judgeC20(c, &cs, obs[0], false)
		},
	})
}
