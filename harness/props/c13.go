package props

import (
	"encoding/json"
	"fmt"
	"go/ast"
	"go/parser"
	"go/token"
	"strings"
	"time"

	"pgregory.net/rapid"

	. "verif/harness/eng"
)

// C13: value providers reproduce the written expression and refuse unsafe ones.
//
// Every program has two "home" packages (the injector's package app and a
// library package lib) declaring the same set of package-level names with
// different values, plus two packages that are both called conf.  A program
// carries several documented-form expressions and at most one special one
// (unsafe / inaccessible / outside the documented forms).

const c13EnvLib = `
var V = T{A: 11, B: "vb", S: []int{1, 2, 3}, MM: map[string]int{"k": 5}, hidden: 9}
var X = 7

const C = 5

const Idx = 1

var PI = &X
var PV = &V
var Arr = [3]int{4, 5, 6}
var Sl = []int{7, 8, 9, 10}
var Ts = []T{{A: 21}, {A: 22}}
var Mp = map[string]int{"a": 1, "b": 2}
var IV I = T{A: 31}
var Ch = make(chan int, 4)
var Fn = func() int { Calls++; return 41 }

type FT func() int

var Next FT = func() int { Calls++; return 43 }

type FTs []FT

var Nexts = FTs{Next}
var Calls int
var unexp = 51

func F() int { Calls++; return 61 }
func (t T) Meth() int { return t.A }

var Default = "lib-default"

type jimpl struct{}

func (jimpl) Other() int { return 1 }

var JV J = jimpl{}

var EV interface{} = 5
`

var c13EnvApp = strings.NewReplacer("C = 5", "C = 6", "Idx = 1", "Idx = 2", "11", "111", `"vb"`, `"avb"`, "X = 7", "X = 70", "lib-default", "app-default", "{A: 21}", "{A: 210}", "A: 31", "A: 310", "{4, 5, 6}", "{40, 50, 60}", "{7, 8, 9, 10}", "{70, 80, 90, 100}", `"a": 1`, `"a": 10`).Replace(c13EnvLib)

type c13gen struct {
	t       *rapid.T
	special string // pending special kind: "", unsafe, inaccessible, either
	home    int    // 0 app, 1 lib
	imports map[int]bool
	usedPar bool
	shadowU bool   // the injector's package redeclares the predeclared identifier int8
	parName string // name of the injector parameter the expression mentions ("par", or "X": shadows the package-level X)
	dot     bool   // the expression is written in the injector's package, which dot-imports the library
}

func (g *c13gen) pick(xs []string, l string) string { return rapid.SampledFrom(xs).Draw(g.t, l) }
func (g *c13gen) pct(p int) bool                    { return rapid.IntRange(0, 99).Draw(g.t, "pct") < p }

// specialInt emits the pending special as an int-typed expression.
func (g *c13gen) specialInt() string {
	k := g.special
	g.special = ""
	switch k {
	case "unsafe":
		return g.pick([]string{"F()", "Fn()", "V.Meth()", "<-Ch", "PV.Meth()", "(F)()", "func() int { return 1 }()", "T.Meth(V)", "Next()", "(Next)()", "Nexts[0]()", "FT(F)()", "FT(Next)()"}, "unsafe")
	case "inaccessible":
		if g.home == 0 || g.dot {
			g.usedPar = true
			if g.parName == "" {
				g.parName = g.pick([]string{"par", "X", "X"}, "parname")
				if g.dot {
					g.parName = "par"
				}
			}
			return g.parName
		}
		return g.pick([]string{"unexp", "V.hidden", "PV.hidden", "T{hidden: 3}.hidden", "Ts[0].hidden"}, "inacc")
	case "either":
		return g.pick([]string{"len(Sl)", "cap(Sl)", "len(\"abc\")", "[...]int{1, 2, 3}[1]", "struct{ Q int }{Q: 4}.Q", "int(real(complex(3, 4)))", "len([]int{1, 2})"}, "either")
	}
	return "1"
}

func (g *c13gen) expr(ty string, depth int) string {
	if ty == "int" && g.special != "" && (depth >= 3 || g.pct(35)) {
		return g.specialInt()
	}
	leaf := depth >= 3
	force := g.special != "" && leaf // must still reach an int hole
	switch ty {
	case "int":
		if leaf {
			return g.pick([]string{"42", "X", "C", "V.A", "PV.A", "Arr[1]", "Sl[2]", `Mp["a"]`, "*PI", "Ts[1].A", "IV.(T).A", "conf.Port", "wconf.Port", "0x1F", "(*PV).A"}, "intleaf")
		}
		switch g.pick([]string{"leaf", "add", "mul", "neg", "conv", "paren", "index", "sel", "shift", "assertsel", "bitops", "litsel", "tsliceidx", "tmapidx", "cmplx", "optsel", "narrow"}, "int") {
		case "optsel":
			return g.expr("opt", depth+1) + ".X"
		case "narrow":
			// mentions the predeclared type int8 (which the injector's package may redeclare)
			return "int(int8(X*40 + " + g.expr("int", depth+1) + "))"
		case "bitops":
			return "((" + g.expr("int", depth+1) + " &^ 1) | 2)"
		case "litsel":
			return "T{A: " + g.expr("int", depth+1) + "}.A"
		case "tsliceidx":
			return g.expr("tslice", depth+1) + "[0].A"
		case "tmapidx":
			return g.expr("tmap", depth+1) + "[\"k\"].A"
		case "cmplx":
			return "(" + g.expr("int", depth+1) + " + int(2.5*2))"
		case "add":
			return "(" + g.expr("int", depth+1) + " + " + g.expr("int", depth+1) + ")"
		case "mul":
			return "(" + g.expr("int", depth+1) + " * 2)"
		case "neg":
			return "(-" + g.expr("int", depth+1) + ")"
		case "conv":
			return "int(" + g.expr("N", depth+1) + ")"
		case "paren":
			return "(" + g.expr("int", depth+1) + ")"
		case "index":
			return g.expr("slice", depth+1) + "[0]"
		case "sel":
			return g.expr("T", depth+1) + ".A"
		case "shift":
			return "(" + g.expr("int", depth+1) + " << 1)"
		case "assertsel":
			return "IV.(T).A"
		}
		return g.expr("int", 3)
	case "string":
		if leaf && !force {
			return g.pick([]string{`"lit"`, "V.B", "Default", "conf.Default", "wconf.Default", "`raw`"}, "strleaf")
		}
		switch g.pick([]string{"cat", "conv", "sel", "leaf"}, "string") {
		case "cat":
			return "(" + g.expr("string", depth+1) + ` + "-" + ` + g.expr("string", 3) + ")"
		case "sel":
			if !force {
				return g.expr("T", depth+1) + ".B"
			}
		case "leaf":
			if !force {
				return g.expr("string", 3)
			}
		}
		return "string(rune(" + g.expr("int", depth+1) + "))"
	case "bool":
		if leaf && !force {
			return g.pick([]string{"true", "false"}, "boolleaf")
		}
		switch g.pick([]string{"cmp", "not", "and"}, "bool") {
		case "not":
			return "!" + g.expr("bool", depth+1)
		case "and":
			return "(" + g.expr("bool", depth+1) + " && " + g.expr("bool", 3) + ")"
		}
		return "(" + g.expr("int", depth+1) + " > 3)"
	case "T":
		if leaf && !force {
			return g.pick([]string{"V", "(*PV)", "Ts[0]", "IV.(T)", "T{}"}, "Tleaf")
		}
		switch g.pick([]string{"lit", "lit2", "lit3", "leaf"}, "T") {
		case "lit2":
			return "T{A: " + g.expr("int", depth+1) + ", B: " + g.expr("string", 3) + "}"
		case "lit3":
			return "T{S: " + g.expr("slice", depth+1) + "}"
		case "leaf":
			if !force {
				return g.expr("T", 3)
			}
		}
		return "T{A: " + g.expr("int", depth+1) + "}"
	case "*T":
		if leaf && !force {
			return g.pick([]string{"&V", "PV", "&Ts[1]"}, "PTleaf")
		}
		return "&T{A: " + g.expr("int", depth+1) + "}"
	case "slice":
		if leaf && !force {
			return g.pick([]string{"Sl", "Sl[1:]", "Sl[:2]", "Arr[:]", "Sl[0:1:2]", "V.S", "Sl[1:2:4]", "Arr[0:1:3]", "Sl[:1:3]"}, "slleaf")
		}
		switch g.pick([]string{"lit", "keyed", "reslice", "idkeyed", "full3", "full3"}, "slice") {
		case "full3":
			// a full slice expression: length and capacity both matter
			return "[]int{" + g.expr("int", depth+1) + ", 2, 3, 4, 5}[1:2:4]"
		case "keyed":
			return "[]int{1: " + g.expr("int", depth+1) + "}"
		case "idkeyed":
			// the key is a package-level constant of the expression's home package
			return "[]int{" + g.pick([]string{"C", "Idx", "(Idx)", "Idx + 1"}, "slicekey") + ": " + g.expr("int", depth+1) + "}"
		case "reslice":
			return "[]int{" + g.expr("int", depth+1) + ", 2, 3}[1:]"
		}
		return "[]int{" + g.expr("int", depth+1) + ", " + g.expr("int", 3) + "}"
	case "map":
		if leaf && !force {
			return g.pick([]string{"Mp", "V.MM"}, "mapleaf")
		}
		if g.pct(40) {
			// keys that are package-level names of the home package
			return "map[string]int{" + g.pick([]string{"Default", "V.B", "(Default)", `Default + "x"`}, "mapkey") + ": " + g.expr("int", depth+1) + `, "fixed": 2}`
		}
		return `map[string]int{"q": ` + g.expr("int", depth+1) + "}"
	case "array":
		if leaf && !force {
			return "Arr"
		}
		if g.pct(40) {
			return "[3]int{Idx: " + g.expr("int", depth+1) + "}"
		}
		return "[3]int{" + g.expr("int", depth+1) + ", 2, 3}"
	case "N":
		return "N(" + g.expr("int", depth+1) + ")"
	case "func":
		return g.pick([]string{"Fn", "F", "V.Meth"}, "func")
	case "chan":
		return g.pick([]string{"Ch", "(chan int)(nil)"}, "chan")
	case "pair":
		return "Pair{East: " + g.expr("string", depth+1) + ", West: " + g.expr("string", depth+1) + "}"
	case "tslice":
		if leaf && !force {
			return g.pick([]string{"Ts", "Ts[:1]", "Ts[0:1:2]"}, "tsliceleaf")
		}
		return "[]T{{A: " + g.expr("int", depth+1) + "}, {A: 2, B: \"two\"}}"
	case "tmap":
		if g.pct(40) {
			return "map[string]T{Default: {A: " + g.expr("int", depth+1) + "}, \"z\": {}}"
		}
		return "map[string]T{\"k\": {A: " + g.expr("int", depth+1) + "}, \"z\": {}}"
	case "pslice":
		return g.pick([]string{"&Sl", "&[]int{1, 2}"}, "pslice")
	case "pptr":
		return "&PV"
	case "arrslice":
		return "[2][]int{{" + g.expr("int", depth+1) + "}, Sl}"
	case "J":
		return "JV"
	case "opt":
		switch g.pick([]string{"both", "x", "default", "swapped"}, "opt") {
		case "x":
			return "Opt{X: " + g.expr("int", depth+1) + "}"
		case "default":
			return "Opt{Default: Default, X: " + g.expr("int", depth+1) + "}"
		case "swapped":
			return "Opt{Default: Default + \"!\", X: X + " + g.expr("int", depth+1) + "}"
		}
		return "Opt{X: X, Default: " + g.expr("string", depth+1) + "}"
	case "empty":
		return "EV"
	}
	return "0"
}

// c13Types maps the generator's type names to Type terms (per home package).
func c13Type(s *Spec, ty string, home int) *Type {
	find := func(name string) int {
		for i := range s.Decls {
			if s.Decls[i].Name == name && s.Decls[i].Pkg == home {
				return i
			}
		}
		return -1
	}
	switch ty {
	case "int":
		return Basic("int")
	case "string":
		return Basic("string")
	case "bool":
		return Basic("bool")
	case "T":
		return Named(find("T"))
	case "*T":
		return Ptr(Named(find("T")))
	case "slice":
		return Slice(Basic("int"))
	case "map":
		return Map(Basic("int"))
	case "array":
		return Array(3, Basic("int"))
	case "N":
		return Named(find("N"))
	case "func":
		return Func(Basic("int"))
	case "chan":
		return Chan(0, Basic("int"))
	case "pair":
		return Named(find("Pair"))
	case "tslice":
		return Slice(Named(find("T")))
	case "tmap":
		return Map(Named(find("T")))
	case "pslice":
		return Ptr(Slice(Basic("int")))
	case "pptr":
		return Ptr(Ptr(Named(find("T"))))
	case "arrslice":
		return Array(2, Slice(Basic("int")))
	case "J":
		return Named(find("J"))
	case "opt":
		return Named(find("Opt"))
	case "empty":
		return &Type{K: "ifacelit"}
	}
	return Basic("int")
}

var c13TypeNames = []string{"opt", "opt", "int", "int", "int", "string", "bool", "T", "T", "*T", "slice", "map", "array", "N", "func", "chan", "pair", "tslice", "tmap", "pslice", "pptr", "arrslice"}

func genC13() *rapid.Generator[*Spec] {
	return rapid.Custom(func(t *rapid.T) *Spec {
		s := &Spec{ImportAlias: map[int]string{3: "wconf"}, PkgExtra: map[int]string{}, PkgExtraImports: map[int][]string{}}
		s.Pkgs = []Pkg{{Dir: "", Name: "app"}, {Dir: "lib", Name: "lib"}, {Dir: "east/conf", Name: "conf"}, {Dir: "west/conf", Name: "conf"}}
		dot := rapid.IntRange(0, 99).Draw(t, "dotimport") < 20
		for home := 0; home <= 1; home++ {
			if dot && home == 0 {
				continue // the injector's package takes every name from the dot-imported library
			}
			s.Decls = append(s.Decls,
				Decl{Pkg: home, Name: "T", Form: "struct", Fields: []SField{{Name: "A", T: Basic("int")}, {Name: "B", T: Basic("string")}, {Name: "S", T: Slice(Basic("int"))}, {Name: "MM", T: Map(Basic("int"))}, {Name: "hidden", T: Basic("int")}}, Methods: []Method{{Name: "M"}}},
				Decl{Pkg: home, Name: "N", Form: "def", Under: Basic("int")},
				Decl{Pkg: home, Name: "I", Form: "iface", IMeth: []string{"M"}},
				Decl{Pkg: home, Name: "Pair", Form: "struct", Fields: []SField{{Name: "East", T: Basic("string")}, {Name: "West", T: Basic("string")}}},
				Decl{Pkg: home, Name: "J", Form: "iface", IMeth: []string{"Other"}},
				// field names that coincide with package-level names of the same package
				Decl{Pkg: home, Name: "Opt", Form: "struct", Fields: []SField{{Name: "X", T: Basic("int")}, {Name: "Default", T: Basic("string")}}},
			)
		}
		s.PkgExtra[0], s.PkgExtra[1] = c13EnvApp, c13EnvLib
		shadowU := !dot && rapid.IntRange(0, 99).Draw(t, "shadowuniverse") < 25
		if shadowU {
			// legal, if unwise: from here on int8 means something else in this package
			s.PkgExtra[0] += "\ntype int8 = int16\n"
		}
		if dot {
			delete(s.PkgExtra, 0)
			s.DotImports = []int{1}
		}
		s.PkgExtra[2] = "var Default = \"east\"\n\nvar Port = 80\n"
		s.PkgExtra[3] = "var Default = \"west\"\n\nvar Port = 81\n"
		nExpr := rapid.IntRange(2, 6).Draw(t, "nexpr")
		specialAt := -1
		specialKind := ""
		if rapid.IntRange(0, 99).Draw(t, "hasspecial") < 60 {
			specialAt = rapid.IntRange(0, nExpr-1).Draw(t, "specialat")
			specialKind = rapid.SampledFrom([]string{"unsafe", "unsafe", "inaccessible", "inaccessible", "either", "iface", "notimpl"}).Draw(t, "specialkind")
		}
		var notes []string
		excludedD20 := false
		for k := 0; k < nExpr; k++ {
			g := &c13gen{t: t, home: rapid.IntRange(0, 1).Draw(t, "home"), dot: dot, shadowU: shadowU}
			if dot {
				g.home = 1
			}
			ty := rapid.SampledFrom(c13TypeNames).Draw(t, "type")
			form := rapid.SampledFrom([]string{"value", "value", "value", "ivalue"}).Draw(t, "form")
			cls := ""
			if k == specialAt {
				switch specialKind {
				case "unsafe", "inaccessible", "either":
					g.special = specialKind
					cls = specialKind
					if form == "ivalue" && specialKind == "unsafe" {
						// known finding D20: InterfaceValue accepts calls (pinned by the
						// repository's golden test InterfaceValue); kept out of the stream
						form = "value"
						excludedD20 = true
					}
				case "iface":
					form, ty = "value-iface", "T"
				case "notimpl":
					form = "ivalue"
					ty = rapid.SampledFrom([]string{"int", "string", "slice", "N", "J", "empty"}).Draw(t, "notimpltype")
				}
			}
			if form == "ivalue" && !(k == specialAt && specialKind == "notimpl") {
				ty = rapid.SampledFrom([]string{"T", "*T"}).Draw(t, "ivaluetype")
			}
			e := g.expr(ty, 0)
			if g.special != "" {
				// the special did not find a hole: wrap
				e = "T{A: " + g.specialInt() + "}"
				ty = "T"
				if form == "ivalue" {
					ty = "T"
				}
			}
			if shadowU && g.home == 1 && cls == "" && strings.Contains(e, "int8(") {
				cls = "inaccessible"
			}
			it := Item{Tok: k, Expr: e, ExprClass: cls}
			if strings.Contains(strings.ReplaceAll(e, "wconf.", ""), "conf.") {
				it.ExprImports = append(it.ExprImports, 2)
			}
			if strings.Contains(e, "wconf.") {
				it.ExprImports = append(it.ExprImports, 3)
			}
			it.NoRef = g.usedPar
			switch form {
			case "value":
				it.Kind, it.Out = "value", c13Type(s, ty, g.home)
			case "value-iface":
				it.Kind, it.Expr, it.ExprImports = "value", "IV", nil
				it.Out = Named(findDecl(s, "I", g.home))
			case "ivalue":
				it.Kind = "ivalue"
				it.Out = Named(findDecl(s, "I", g.home))
				it.Conc = c13Type(s, ty, g.home)
			}
			for _, d := range s.Decls {
				if !c13EnvNames[d.Name] {
					c13EnvNames[d.Name] = true
				}
			}
			if dot && c13UsesEnv(it.Expr) {
				it.ExprImports = append(it.ExprImports, 1)
			}
			ii := addItem(s, it)
			in := Injector{Name: fmt.Sprintf("Inject%d", k), Out: it.Out, Panic: rapid.Bool().Draw(t, "panicform")}
			if g.usedPar {
				in.Params = []Param{{Name: g.parName, T: Basic("int")}}
			}
			place := rapid.SampledFrom([]string{"set", "set", "direct"}).Draw(t, "place")
			if g.home == 1 && !dot {
				place = "set"
			}
			if g.usedPar {
				place = "direct"
			}
			if place == "set" {
				setPkg := g.home
				if dot {
					setPkg = 0
				}
				s.Sets = append(s.Sets, Set{Pkg: setPkg, Name: fmt.Sprintf("VSet%d", k), Args: []Ref{RItem(ii)}, AliasOf: -1})
				in.Args = []Ref{RSet(len(s.Sets) - 1)}
				s.Injectors = append(s.Injectors, in)
				twin := in
				twin.Name = fmt.Sprintf("Inject%db", k)
				twin.File = 1
				s.Injectors = append(s.Injectors, twin)
			} else {
				in.Args = []Ref{RItem(ii)}
				s.Injectors = append(s.Injectors, in)
			}
			notes = append(notes, fmt.Sprintf("%s/%s/home%d/%s", form, ty, g.home, map[string]string{"": "safe"}[cls]+cls))
		}
		if specialKind == "iface" || specialKind == "notimpl" {
			notes = append(notes, "special="+specialKind)
		}
		if rapid.IntRange(0, 99).Draw(t, "samespelling") < 50 {
			// two sets of two packages (both called conf) provide a value of the
			// same type written with the same spelling; each has its own injector
			for _, pk := range []int{2, 3} {
				name := rapid.SampledFrom([]string{"Default", "Port"}).Draw(t, "samename")
				ty := map[string]string{"Default": "string", "Port": "int"}[name]
				ii := addItem(s, Item{Kind: "value", Expr: name, Out: Basic(ty)})
				s.Sets = append(s.Sets, Set{Pkg: pk, Name: "ConfSet", Args: []Ref{RItem(ii)}, AliasOf: -1})
				s.Injectors = append(s.Injectors, Injector{Name: fmt.Sprintf("InjectConf%d", pk), Out: Basic(ty), Args: []Ref{RSet(len(s.Sets) - 1)}, Panic: true})
			}
			notes = append(notes, "same-spelling")
		}
		if excludedD20 {
			notes = append(notes, "d20-excluded")
		}
		if dot {
			notes = append(notes, "dot-import")
		}
		if shadowU {
			notes = append(notes, "redeclared-int8")
		}
		s.Note = "C13 " + strings.Join(notes, " ")
		// plan: every injector twice
		for k := range s.Injectors {
			s.Plan = append(s.Plan, Run{Inj: k, Fault: -1}, Run{Inj: k, Fault: -1})
		}
		return s
	})
}

// c13EnvNames are the package-level names of the value environment.
var c13EnvNames = func() map[string]bool {
	f, err := parser.ParseFile(token.NewFileSet(), "env.go", "package p\n"+c13EnvLib, 0)
	if err != nil {
		panic(err)
	}
	m := map[string]bool{"T": true, "I": true, "Gen": true}
	for name := range f.Scope.Objects {
		m[name] = true
	}
	return m
}()

// c13UsesEnv reports whether the expression mentions a package-level name of
// the environment (so that a file holding it needs the environment's import).
func c13UsesEnv(expr string) bool {
	e, err := parser.ParseExpr(expr)
	if err != nil {
		return true
	}
	uses := false
	ast.Inspect(e, func(n ast.Node) bool {
		switch n := n.(type) {
		case *ast.SelectorExpr:
			ast.Inspect(n.X, func(m ast.Node) bool {
				if id, ok := m.(*ast.Ident); ok && c13EnvNames[id.Name] {
					uses = true
				}
				return true
			})
			return false
		case *ast.Ident:
			if c13EnvNames[n.Name] {
				uses = true
			}
		}
		return true
	})
	return uses
}

func findDecl(s *Spec, name string, pkg int) int {
	for i := range s.Decls {
		if s.Decls[i].Name == name && s.Decls[i].Pkg == pkg {
			return i
		}
	}
	return -1
}

func judgeC13(c *Ctx, e *ProgEval, count bool) *Fail {
	if e.Obs.Status == "skipped" {
		return nil
	}
	either := false
	for _, v := range e.Verdicts {
		if v.Either {
			either = true
		}
	}
	x := expect(e)
	if count {
		for _, f := range strings.Fields(strings.TrimPrefix(e.Spec.Note, "C13 ")) {
			c.Class(f)
		}
		if strings.Contains(e.Spec.Note, "d20-excluded") {
			c.Excluded("InterfaceValue with a call expression (known finding D20)")
		}
		c.Nontrivial(e.Spec.Hash())
	}
	if either && x.accept {
		// harmless form outside the documented list: either verdict, but never a crash
		if e.Obs.Status == "panic" {
			return Failf("C13 wire crashed", "%s", tailStr(e.Obs.Stderr, 2000))
		}
		if !e.Accepted() {
			return nil
		}
	} else if f := judgeVerdict(c, e, "C13", ""); f != nil {
		return f
	}
	if !x.accept || !e.Accepted() {
		return nil
	}
	if f := judgeC01(c, e, false); f != nil {
		f.Kind = "C13 accepted program: " + f.Kind
		return f
	}
	if f := runGate(c, e, "C13"); f != nil {
		return f
	}
	if !e.Built || e.Run == nil {
		return nil
	}
	if e.Run.Panic != "" {
		return Failf("C13 generated program panicked", "%s", e.Run.Panic)
	}
	// value equals the home-package evaluation; identity is stable across calls and injectors
	refs := Refs(e.Run)
	m := NewModel(e.Spec)
	first := map[int]*Tree{}
	for ri, run := range e.Spec.Plan {
		sec := e.Section(fmt.Sprintf("run%d", ri))
		if sec == nil {
			return Failf("C13 driver section missing", "run%d", ri)
		}
		if errs := CheckWiring(m, run.Inj, e.Verdicts[run.Inj], sec, refs); len(errs) > 0 {
			return Failf("C13 provided value differs from the written expression", "injector %s: %s\n--- wire_gen.go\n%s", e.Spec.Injectors[run.Inj].Name, strings.Join(errs, "\n"), e.GenSrc)
		}
		var res *Tree
		for _, ev := range sec.Events {
			if ev.Kind == "result" && len(ev.Vals) == 1 {
				res = ev.Vals[0]
			}
		}
		in := &e.Spec.Injectors[run.Inj]
		item := -1
		var find func(rs []Ref)
		find = func(rs []Ref) {
			for _, r := range rs {
				switch {
				case r.Item >= 0:
					item = r.Item
				case r.Set >= 0:
					find(e.Spec.Sets[r.Set].Args)
				}
			}
		}
		find(in.Args)
		if item < 0 || res == nil {
			continue
		}
		if prev, ok := first[item]; ok {
			if !prev.Equal(res, false) {
				return Failf("C13 value is not evaluated once: calls observe different values or pointers", "item %d (%s): %s vs %s\n--- wire_gen.go\n%s", item, e.Spec.Items[item].Expr, prev, res, e.GenSrc)
			}
		} else {
			first[item] = res
		}
	}
	return nil
}

func init() {
	Register(&Property{
		ID: "C13", Level: "exploration", Assumptions: wfAssume,
		Rule: "type-directed expression generator (literals, composite literals of struct/slice/keyed slice/map/array, conversions, unary/binary operators, selectors, indexing, slicing incl. 3-index, dereference, address-of, type assertion, parentheses, method values; depth <= 4) over two home packages (the injector's package and a library) that declare the same names with different values, and two packages both named conf (one imported under an alias); 2-6 expressions per program as wire.Value / wire.InterfaceValue, in a named set of the home package (shared by two injectors in two files) or directly in wire.Build; at most one special expression per program: unsafe (function call, call through a func variable, method call, method expression call, func literal call, channel receive planted at a drawn depth), inaccessible (unexported variable/field/composite key of the library, injector parameter), interface-typed wire.Value, non-implementing InterfaceValue, or a harmless form outside the documented list (either verdict). Oracle: special => rejected with the class diagnostic and nothing generated; otherwise accepted, compiled and run: each injector's result equals the same expression evaluated in its home package, and is the identical value/pointer across two calls and across the two injectors sharing the set. Every program is non-trivial (>=2 expressions); distinct by program hash.",
		Shards: func(tier string) int {
			if tier == "thorough" {
				return 12
			}
			return 8
		},
		Timeout: func(tier string) time.Duration {
			if tier == "thorough" {
				return 120 * time.Minute
			}
			return 25 * time.Minute
		},
		Run: func(c *Ctx) {
			n := 0
			Batched(c, "C13", c.Pick(300, 2000), time.Duration(c.Pick(90, 300))*time.Second,
				func(t *rapid.T) *Spec { return genC13().Draw(t, "program") },
				specKey, evalVerdict(c, true),
				func(s *Spec, e *ProgEval) *Fail {
					n++
					if n%60 == 1 {
						var exprs []string
						for _, it := range e.Spec.Items {
							exprs = append(exprs, it.Kind+": "+it.Expr)
						}
						c.Sample(map[string]interface{}{"note": e.Spec.Note, "expressions": exprs, "wire_failed": e.Obs.Failed(), "diagnostics": tailStr(e.Obs.DiagText(), 400)})
					}
					return judgeC13(c, e, true)
				})
		},
		ReplayCase: func(c *Ctx, kind string, raw json.RawMessage) *Fail {
			return replaySpec(c, raw, judgeC13)
		},
	})
}
