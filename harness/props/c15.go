package props

import (
	"bufio"
	"encoding/json"
	"fmt"
	"go/ast"
	"go/parser"
	"go/token"
	"os"
	"path/filepath"
	"reflect"
	"regexp"
	"sort"
	"strconv"
	"strings"
	"time"

	"pgregory.net/rapid"

	. "verif/harness/eng"
)

// C15: declarations copied from injector files keep their meaning.

// C15Case is one injector file.
type C15Case struct {
	Alias  map[string]string `json:"alias"` // std/dep package key -> import name used in the source file ("" = package name)
	Funcs  []C15Func         `json:"funcs"`
	Pkg    []string          `json:"pkg"`    // optional package-level declaration blocks included
	DotDep bool              `json:"dotdep"` // the second dep package is dot-imported
	// DeclsFirst puts the package-level declaration block before the probe functions.
	DeclsFirst bool `json:"declsfirst"`
}

type C15Func struct {
	Stmts []C15Stmt `json:"stmts"`
}

type C15Stmt struct {
	Tmpl  int      `json:"tmpl"`
	Names []string `json:"names"`
	Lit   int      `json:"lit"`
}

func (cs *C15Case) key() string { b, _ := json.Marshal(cs); return HashString(string(b)) }

// statement templates: §N = local name N, ¤ = literal, and the import names
// F (fmt) SC (strconv) ST (strings) E (errors) D (lib, package dep) D2 (other/dep).
type c15Tmpl struct {
	text string
	n    int      // number of local names
	uses []string // package-level identifiers used (must not be shadowed by locals)
	dep2 bool     // uses D2
}

var c15Templates = []c15Tmpl{
	{text: "§1 := a*¤ + 1\nout += SC.Itoa(§1) + \";\"", n: 1},
	{text: "var §1 []string\n§1 = append(§1, SC.Itoa(a), \"q\")\nout += ST.Join(§1, \",\") + \";\"", n: 1},
	{text: "for §1, §2 := range []int{a, ¤, 3} {\n\tout += F.Sprint(§1, §2)\n}\nout += \";\"", n: 2},
	{text: "§1:\n\tfor §2 := 0; §2 < 5; §2++ {\n\t\tif §2 == 1 {\n\t\t\tcontinue §1\n\t\t}\n\t\tif §2 > ¤%4+1 {\n\t\t\tbreak §1\n\t\t}\n\t\tout += SC.Itoa(§2)\n\t}", n: 2},
	{text: "if §1 := a + ¤; §1 > 3 {\n\tout += \"big\" + SC.Itoa(§1)\n} else if §1 == 3 {\n\tout += \"three\"\n} else {\n\tout += \"small\"\n}", n: 1},
	{text: "switch §1 := a % 3; §1 {\ncase 0:\n\tout += \"zero\"\n\tfallthrough\ncase 1:\n\tout += \"one\"\ndefault:\n\tout += \"other\" + SC.Itoa(§1)\n}", n: 1},
	{text: "for _, §2 := range []interface{}{a, \"s\", 2.5, nil, D.Box{N: a}} {\n\tswitch §1 := §2.(type) {\n\tcase int:\n\t\tout += \"i\" + SC.Itoa(§1)\n\tcase string:\n\t\tout += \"s\" + §1\n\tcase D.Box:\n\t\tout += §1.Show()\n\tcase nil:\n\t\tout += \"nil\"\n\tdefault:\n\t\tout += F.Sprint(§1)\n\t}\n}", n: 2},
	{text: "switch interface{}(a).(type) {\ncase int, int64:\n\tout += \"int\"\ndefault:\n\tout += \"?\"\n}", n: 0},
	{text: "§1 := make(chan int, 2)\n§1 <- a\n§1 <- ¤\nselect {\ncase §2, §3 := <-§1:\n\tout += F.Sprint(§2, §3)\ndefault:\n\tout += \"empty\"\n}\nclose(§1)\nfor §2 := range §1 {\n\tout += SC.Itoa(§2)\n}", n: 3},
	{text: "func() {\n\tdefer func() {\n\t\tif §1 := recover(); §1 != nil {\n\t\t\tout += \"rec;\"\n\t\t}\n\t}()\n\tvar §2 []int\n\t_ = §2[a+¤]\n}()", n: 2},
	{text: "§1 := make(chan string)\ngo func(§2 int) { §1 <- SC.Itoa(§2 * 2) }(a)\nout += <-§1", n: 2},
	{text: "§1 := a\n§2 := func(§1 int) int { §3 := §1 * 2; return §3 + 1 }\n{\n\t§1 := \"inner\"\n\tout += §1\n}\nout += SC.Itoa(§2(§1))", n: 3},
	{text: "§1 := ¤ % 3\n§2 := map[int]string{0: \"z\", §1 + 10: \"k\"}\n§3 := [...]string{2: \"c\", 0: \"a\"}\n§4 := []rec{{fmt: 1, Name: \"n\"}, {Name: \"m\"}}\n§5 := map[string][]int{\"x\": {1, 2}, \"y\": nil}\nout += F.Sprint(len(§2), §2[§1+10], §3, §4[0].fmt, §4[1].Name, len(§5[\"x\"]))", n: 5, uses: []string{"rec"}},
	{text: "§1 := ¤%4 + 1\n§2 := map[int]string{0: \"q\", §1: \"dbg\"}\n§3 := []string{2: \"idx\"}\nout += §2[§1] + SC.Itoa(len(§3)) + SC.Itoa(level)", n: 3, uses: []string{"level"}},
	{text: "§1 := []int{1, 2, 3, 4, 5, 6}\n§2 := §1[1:4]\n§3 := §1[1:3:4]\n§4 := &§1[2]\n*§4 += a\nout += F.Sprint(§2, len(§3), cap(§3), *§4, (§1)[0])", n: 4},
	{text: "var §1 interface{} = D.Box{N: a}\n§2, §3 := §1.(D.Box)\n§4 := []string{\"p\", \"q\"}\nout += join(§4...) + F.Sprint(§2.N, §3, float64(a)/2, string(rune(65+a%26)))", n: 4, uses: []string{"join"}},
	{text: "§1 := a\n§1++\n§1 <<= 2\n§1 &^= 1\n§1 -= ¤ % 5\n§1--\n§1 |= 64\n§1 %= 50\nout += SC.Itoa(§1)", n: 1},
	{text: "§1 := 0\n§2:\n\tif §1 < 2 {\n\t\t§1++\n\t\tgoto §2\n\t}\n\t;\n\t{\n\t\tout += SC.Itoa(§1)\n\t}", n: 2},
	{text: "type §1 struct {\n\tstrconv int\n\terrors  string\n}\n§2 := §1{strconv: a, errors: \"e\"}\n§3 := &§2\n§3.strconv++\nout += F.Sprint(§2.strconv, §3.errors)", n: 3},
	{text: "§1 := E.New(\"boom\" + SC.Itoa(a))\n§2 := D2.Helper(a)\nout += §1.Error() + D.Helper(¤) + §2 + SC.Itoa(D.K+D.V)", n: 2, dep2: true},
	{text: "§1 := func(§2 func(int) string, §3 ...int) (§4 string) {\n\tfor _, §5 := range §3 {\n\t\t§4 += §2(§5)\n\t}\n\treturn\n}\nout += §1(SC.Itoa, a, ¤)", n: 5},
	{text: "out += F.Sprint(mapSlice([]int{a, ¤}, func(§1 int) string { return SC.Itoa(§1 * 2) }), newPair(a, \"p\").Key, newPair[string, int](\"k\", a).Val, box[int]{v: a}.get())", n: 1, uses: []string{"mapSlice", "newPair", "box", "pair"}},
	{text: "§1 := make(chan int, 3)\n§2 := make(chan string, 3)\n§1 <- a\n§1 <- ¤\nclose(§1)\npump(§1, §2)\nfor §3 := range §2 {\n\tout += §3 + \",\"\n}", n: 3, uses: []string{"pump"}},
	{text: "§1 := tagged{Box: D.Box{N: a}, Name: \"t\"}\n§1.rename(\"r\" + SC.Itoa(¤))\nvar §2 namer = §1\nout += §1.Show() + §2.describe()", n: 2, uses: []string{"tagged", "namer"}},
	{text: "out += F.Sprint(kA, kB, kD, kC, gv1, gv2, gv3)", n: 0, uses: []string{"kA", "kB", "kD", "kC", "gv1", "gv2", "gv3"}},
	{text: "out += svc{}.InitBox()", n: 0, uses: []string{"svc"}},
	{text: "var §1 *[2][2]int = &[2][2]int{{1, 2}, {3, a}}\nout += F.Sprint((*§1)[1][1], len(§1))", n: 1},
	{text: "for §1, §2 := range \"h\\u00e9y\" {\n\tout += F.Sprint(§1, string(§2))\n}\nout += `raw\\n`", n: 2},
	{text: "out += F.Sprint(0x1F+a, 1e3, 'x', real(2i*2i), 07, 1_000)", n: 0},
	{text: "switch §1 := a * 2; {\ncase §1 > 10:\n\tout += \"gt\"\ncase §1 < 0:\n\tout += \"neg\"\ndefault:\n\tout += \"mid\"\n}", n: 1},
	{text: "var §1, §2 = a, \"s\"\nvar (\n\t§3 int\n\t§4 = []byte(\"ab\")\n)\nconst §5 = ¤\n§3 = §5 + len(§4) + §1\nout += §2 + SC.Itoa(§3)", n: 5},
	{text: "§1 := struct {\n\tA int\n\tB []string\n}{A: a, B: []string{\"x\"}}\n§2 := &§1\nout += F.Sprint(§2.A, (*§2).B[0], len(§1.B))", n: 2},
	{text: "§1 := func() (int, error) { return a, E.New(\"e\") }\nif §2, §3 := §1(); §3 != nil {\n\tout += SC.Itoa(§2) + §3.Error()\n}", n: 3},
	{text: "§1 := []func(int) int{func(x int) int { return x + 1 }, func(x int) int { return x * ¤ }}\nfor _, §2 := range §1 {\n\tout += SC.Itoa(§2(a))\n}", n: 2},
	{text: "§1 := map[D.Box]*D.Box{{N: 1}: {N: a}}\nfor §2, §3 := range §1 {\n\tout += §2.Show() + §3.Show()\n}", n: 3},
	{text: "var §1 D.Box\n§1.N = a\n§2 := &§1\n§2.N += ¤\nout += §1.Show() + SC.Quote(ST.ToUpper(\"q\"))", n: 2},
	// the second dependency package alone (it may be dot-imported), with a local of their own
	{text: "§1 := D2.Helper(a)\nout += §1 + D2.Helper(¤)", n: 1, dep2: true},
	{text: "for §1 := 0; §1 < 2; §1++ {\n\tout += D2.Helper(§1 + a)\n}", n: 1, dep2: true},
	{text: "§1 := struct{ n int }{n: a}\n§2 := D2.Helper(§1.n)\nout += §2", n: 2, dep2: true},
	// selecting a field and calling a method directly on a variable of the second dependency package: when that
	// package is dot-imported the operand of the selector is a bare identifier that needs a qualifier in the copy
	{text: "§1 := D2.Default.N + a\nout += D2.Default.Label() + SC.Itoa(§1) + D2.Rec{N: ¤}.Label()", n: 1, dep2: true},
	// locals declared inside the clauses of a type switch, next to the switch's own variable
	{text: "for _, §2 := range []interface{}{a, \"s\", 2.5} {\n\tswitch §1 := §2.(type) {\n\tcase int:\n\t\t§3 := §1 + ¤\n\t\tout += SC.Itoa(§3) + SC.Itoa(§1)\n\tcase string:\n\t\tif §3 := ST.ToUpper(§1); §3 != §1 {\n\t\t\tout += §3 + §1\n\t\t}\n\tdefault:\n\t\t§3 := F.Sprint(§1)\n\t\tout += §3\n\t}\n}", n: 3},
	// nested closures capturing locals of enclosing scopes
	{text: "§1 := a\nfunc() {\n\t§2 := §1 + ¤\n\tfunc() {\n\t\t§3 := §2 + §1\n\t\tout += SC.Itoa(§3)\n\t}()\n\tout += SC.Itoa(§2)\n}()\nout += SC.Itoa(§1)", n: 3},
	// a local declared after a use of the package-level name of the same spelling would change meaning; here: sibling blocks
	{text: "{\n\t§1 := a + 1\n\tout += SC.Itoa(§1)\n}\n{\n\t§2 := a + 2\n\t{\n\t\t§1 := §2 * ¤\n\t\tout += SC.Itoa(§1)\n\t}\n\tout += SC.Itoa(§2)\n}", n: 2},
}

var c15LocalPool = []string{"fmt", "strconv", "strings", "errors", "dep", "dep2", "fmt2", "strconv2", "strings2", "errors2", "dep3", "strconv3", "err", "level", "counter", "x", "y", "n", "i", "v", "s", "rec", "join", "wire", "fmt_2"}

const c15PkgDecls = `
// rec is a record.
type rec struct {
	fmt  int
	Name string
}

type tagged struct {
	D.Box
	Name string ` + "`json:\"name\" wire:\"-\"`" + `
}

// describe describes a tagged value.
func (t tagged) describe() string { return "tagged:" + t.Name + SC.Itoa(t.N) }

func (t *tagged) rename(n string) { t.Name = n }

type shower interface{ Show() string }

type namer interface {
	shower
	describe() string
}

const (
	kA = iota * 10
	kB
	_
	kD
	kC = "str"
)

var gv1, gv2 = 1, "two"

var (
	gv3     = []int{1, 2, 3}
	level   = 1
	counter int
)

func join(parts ...string) string { return ST.Join(parts, "+") }

func mapSlice[T, U any](xs []T, fn func(T) U) []U {
	var out []U
	for _, x := range xs {
		out = append(out, fn(x))
	}
	return out
}

type pair[K comparable, V any] struct {
	Key K
	Val V
}

func newPair[K comparable, V any](k K, v V) pair[K, V] { return pair[K, V]{Key: k, Val: v} }

type box[T any] struct{ v T }

func (b box[T]) get() T { return b.v }

func pump(in <-chan int, out chan<- string) {
	for v := range in {
		out <- SC.Itoa(v)
	}
	close(out)
}

type svc struct{}

// InitBox is a method that happens to be called like an injector.
func (svc) InitBox() string { return "method" }

type handler func(int) (string, error)

var table = map[string]handler{
	"a": func(n int) (string, error) { return SC.Itoa(n), nil },
}

func init() { counter++ }
`

var c15ImportKeys = []string{"F", "SC", "ST", "E", "D", "D2"}
var c15ImportPath = map[string]string{"F": "fmt", "SC": "strconv", "ST": "strings", "E": "errors"}
var c15DefaultName = map[string]string{"F": "fmt", "SC": "strconv", "ST": "strings", "E": "errors", "D": "dep", "D2": "dep"}
var c15AliasPool = map[string][]string{"F": {"f", "format"}, "SC": {"sc", "conv"}, "ST": {"st", "str"}, "E": {"e", "errs"}, "D": {"d", "lib"}, "D2": {"d2", "odep"}}

func genC15() *rapid.Generator[*C15Case] {
	return rapid.Custom(func(t *rapid.T) *C15Case {
		cs := &C15Case{Alias: map[string]string{}}
		for _, k := range c15ImportKeys {
			if k == "D2" || rapid.IntRange(0, 99).Draw(t, "aliased") < 75 {
				cs.Alias[k] = rapid.SampledFrom(c15AliasPool[k]).Draw(t, "alias")
			} else {
				cs.Alias[k] = ""
			}
		}
		importNames := map[string]bool{"wire": true}
		for _, k := range c15ImportKeys {
			n := cs.Alias[k]
			if n == "" {
				n = c15DefaultName[k]
			}
			importNames[n] = true
		}
		cs.DeclsFirst = rapid.Bool().Draw(t, "declsfirst")
		cs.DotDep = rapid.Bool().Draw(t, "dotdep")
		nf := rapid.IntRange(1, 5).Draw(t, "nfuncs")
		for fi := 0; fi < nf; fi++ {
			var fn C15Func
			ns := rapid.IntRange(1, 7).Draw(t, "nstmts")
			labels := map[string]bool{}
			for si := 0; si < ns; si++ {
				ti := rapid.IntRange(0, len(c15Templates)-1).Draw(t, "tmpl")
				tm := c15Templates[ti]
				st := C15Stmt{Tmpl: ti, Lit: rapid.IntRange(0, 9).Draw(t, "lit")}
				// every statement lives in its own block: its locals only need to avoid the
				// package-level identifiers it uses itself and the function's labels
				used := map[string]bool{"a": true, "out": true}
				for _, u := range tm.uses {
					used[u] = true
				}
				for l := range labels {
					used[l] = true
				}
				// sometimes two locals of one statement are a package name and the
				// very name a renamer would pick for it (fmt and fmt2)
				forced := map[int]string{}
				if tm.n >= 2 && rapid.IntRange(0, 99).Draw(t, "collisionpair") < 30 {
					base := rapid.SampledFrom([]string{"fmt", "strconv", "strings", "errors", "dep"}).Draw(t, "pairbase")
					if tm.dep2 {
						base = "dep"
					}
					if !used[base] && !used[base+"2"] && !importNames[base] && !importNames[base+"2"] {
						slots := rapid.Permutation(seqInts(tm.n)).Draw(t, "pairslots")
						forced[slots[0]], forced[slots[1]] = base, base+"2"
					}
				}
				for k := 0; k < tm.n; k++ {
					if name, ok := forced[k]; ok {
						used[name] = true
						if ti == 3 && k == 0 || ti == 17 && k == 1 {
							labels[name] = true
						}
						st.Names = append(st.Names, name)
						continue
					}
					var free []string
					for _, cand := range c15LocalPool {
						skip := false
						for _, fv := range forced {
							if fv == cand {
								skip = true
							}
						}
						if skip {
							continue
						}
						if !used[cand] && !importNames[cand] {
							free = append(free, cand)
						}
					}
					name := fmt.Sprintf("l%d_%d", si, k)
					if len(free) > 0 {
						name = rapid.SampledFrom(free).Draw(t, "local")
					}
					used[name] = true
					if ti == 3 && k == 0 || ti == 17 && k == 1 {
						labels[name] = true // labels are function-scoped
					}
					st.Names = append(st.Names, name)
				}
				fn.Stmts = append(fn.Stmts, st)
			}
			cs.Funcs = append(cs.Funcs, fn)
		}
		return cs
	})
}

func seqInts(n int) []int {
	out := make([]int, n)
	for i := range out {
		out[i] = i
	}
	return out
}

func (cs *C15Case) importName(k string) string {
	if n := cs.Alias[k]; n != "" {
		return n
	}
	return c15DefaultName[k]
}

func (cs *C15Case) subst(text string) string {
	for _, k := range []string{"SC", "ST", "D2", "F", "E", "D"} {
		re := regexp.MustCompile(`\b` + k + `\.`)
		if k == "D2" && cs.DotDep {
			// the second dependency package is dot-imported: its names are unqualified
			text = re.ReplaceAllString(text, "")
			continue
		}
		text = re.ReplaceAllString(text, cs.importName(k)+".")
	}
	return text
}

func (cs *C15Case) usesDep2() bool {
	for _, f := range cs.Funcs {
		for _, st := range f.Stmts {
			if c15Templates[st.Tmpl].dep2 {
				return true
			}
		}
	}
	return false
}

// files renders the program: lib (package dep), other/dep (package dep), the
// injector file with the declarations, providers and the probe.
func (cs *C15Case) files(prog string) map[string]string {
	base := ProgPath(prog)
	out := map[string]string{
		"lib/lib.go":       "package dep\n\nimport \"strconv\"\n\ntype Box struct{ N int }\n\nfunc (b Box) Show() string { return \"box\" + strconv.Itoa(b.N) }\n\nconst K = 7\n\nvar V = 3\n\nfunc Helper(n int) string { return \"lib\" + strconv.Itoa(n) }\n",
		"other/dep/dep.go": "package dep\n\nimport \"strconv\"\n\nfunc Helper(n int) string { return \"other\" + strconv.Itoa(n*2) }\n\ntype Rec struct{ N int }\n\nfunc (r Rec) Label() string { return \"rec\" + strconv.Itoa(r.N) }\n\nvar Default = Rec{N: 5}\n",
		"prov.go":          "package app\n\nimport lib \"" + base + "/lib\"\n\nfunc NewBox() lib.Box { return lib.Box{N: 5} }\n",
	}
	var w strings.Builder
	w.WriteString("//go:build wireinject\n\npackage app\n\nimport (\n")
	imp := func(k, path string) {
		if a := cs.Alias[k]; a != "" {
			fmt.Fprintf(&w, "\t%s %q\n", a, path)
		} else {
			fmt.Fprintf(&w, "\t%q\n", path)
		}
	}
	for _, k := range []string{"E", "F", "SC", "ST"} {
		imp(k, c15ImportPath[k])
	}
	w.WriteString("\n")
	imp("D", base+"/lib")
	if cs.usesDep2() {
		if cs.DotDep {
			fmt.Fprintf(&w, "\t. %q\n", base+"/other/dep")
		} else {
			imp("D2", base+"/other/dep")
		}
	}
	w.WriteString("\t\"github.com/google/wire\"\n)\n\n")
	w.WriteString("// InitBox builds a box.\nfunc InitBox() " + cs.importName("D") + ".Box {\n\twire.Build(NewBox)\n\treturn " + cs.importName("D") + ".Box{}\n}\n\n")
	declsFirst := cs.DeclsFirst
	if declsFirst {
		w.WriteString(cs.subst(c15PkgDecls))
	}
	var probe strings.Builder
	probe.WriteString("package app\n\n// ZzProbe exercises the copied declarations.\nfunc ZzProbe() string {\n\ts := \"\"\n")
	for fi, fn := range cs.Funcs {
		fmt.Fprintf(&w, "\n// Probe%d is probe number %d.\nfunc Probe%d(a int) (out string) {\n", fi, fi, fi)
		for _, st := range fn.Stmts {
			text := c15Templates[st.Tmpl].text
			for k := len(st.Names); k >= 1; k-- {
				text = strings.ReplaceAll(text, "§"+strconv.Itoa(k), st.Names[k-1])
			}
			text = strings.ReplaceAll(text, "¤", strconv.Itoa(st.Lit))
			text = cs.subst(text)
			// each statement in its own block so that locals of different statements do not clash
			w.WriteString("\t{\n")
			for _, line := range strings.Split(text, "\n") {
				w.WriteString("\t\t" + line + "\n")
			}
			w.WriteString("\t}\n")
		}
		w.WriteString("\treturn\n}\n")
		fmt.Fprintf(&probe, "\ts += Probe%d(1) + \"|\" + Probe%d(4) + \"|\"\n", fi, fi)
	}
	if !declsFirst {
		w.WriteString(cs.subst(c15PkgDecls))
	}
	if cs.Alias["D"] != "" {
		// an ungrouped declaration whose last token is a package-qualified
		// identifier, with a closure parameter named like the package
		w.WriteString(cs.subst("\n// gvTail ends in a qualified identifier.\nvar gvTail = func(dep int) int { return dep + D.K }(2) + D.V\n"))
	} else {
		w.WriteString("\nvar gvTail = 12\n")
	}
	// keep every import used even when no function mentions it (last, so that a probe
	// function can be the first copied declaration to mention a package)
	w.WriteString(cs.subst("\nvar _ = []interface{}{F.Sprint, SC.Itoa, ST.Join, E.New}\n"))
	probe.WriteString("\ts += string(rune('a' + gvTail%26))\n\ts += table[\"a\"].name() + Second(3)\n\treturn s\n}\n\nfunc (h handler) name() string { v, _ := h(counter); return v }\n")
	out["decls.go"] = w.String()
	// a second injector file that spells another package with the same local import name
	da := cs.importName("D")
	out["decls2.go"] = "//go:build wireinject\n\npackage app\n\nimport (\n\t" + da + " \"" + base + "/other/dep\"\n\tlb \"" + base + "/lib\"\n\n\t\"github.com/google/wire\"\n)\n\n// InitBox2 is a second injector, in a second file.\nfunc InitBox2() lb.Box {\n\twire.Build(NewBox)\n\treturn lb.Box{}\n}\n\n// Second uses the other package that is also called dep.\nfunc Second(a int) string { return " + da + ".Helper(a) + lb.Helper(a) }\n"
	out["zz_probe.go"] = probe.String()
	return out
}

// ---------------------------------------------------------------------------
// structural comparison of the copied declarations

type declCmp struct {
	srcImports, genImports map[string]string // import name -> path
	problems               []string
}

func importTable(f *ast.File, defaults map[string]string) map[string]string {
	m := map[string]string{}
	for _, im := range f.Imports {
		p, _ := strconv.Unquote(im.Path.Value)
		name := ""
		if im.Name != nil {
			name = im.Name.Name
		} else if d, ok := defaults[p]; ok {
			name = d
		} else if strings.HasSuffix(p, "/lib") {
			name = "dep" // directory lib holds package dep
		} else {
			name = p[strings.LastIndex(p, "/")+1:]
		}
		m[name] = p
	}
	return m
}

var reRenamed = regexp.MustCompile(`^(.*?)_?\d+$`)

func (dc *declCmp) identOK(src, gen string) bool {
	if src == gen {
		return true
	}
	// consistent renaming appends a number (x -> x2, x3, x_2 when x ends in a digit)
	if strings.HasPrefix(gen, src) {
		rest := strings.TrimPrefix(gen[len(src):], "_")
		if rest != "" {
			if _, err := strconv.Atoi(rest); err == nil {
				return true
			}
		}
	}
	return false
}

var posType = reflect.TypeOf(token.Pos(0))

func (dc *declCmp) cmp(a, b reflect.Value, path string) {
	if len(dc.problems) > 3 {
		return
	}
	if a.Kind() == reflect.Interface || a.Kind() == reflect.Ptr {
		if a.IsNil() != b.IsNil() {
			dc.problems = append(dc.problems, fmt.Sprintf("%s: present in one copy only", path))
			return
		}
		if a.IsNil() {
			return
		}
	}
	if a.Kind() == reflect.Interface {
		a, b = a.Elem(), b.Elem()
	}
	if a.Type() != b.Type() {
		// an identifier of a dot-imported package gets its qualifier in the copy
		if ai, ok := a.Interface().(*ast.Ident); ok && ai.Obj == nil && ast.IsExported(ai.Name) {
			if bs, ok := b.Interface().(*ast.SelectorExpr); ok {
				if bx, ok := bs.X.(*ast.Ident); ok && bx.Obj == nil {
					if dp, isDot := dc.srcImports["."]; isDot && dc.genImports[bx.Name] == dp && bs.Sel.Name == ai.Name {
						return
					}
				}
			}
		}
		// any other package qualifier introduced for an identifier is not expected here
		dc.problems = append(dc.problems, fmt.Sprintf("%s: node kind %s became %s", path, a.Type(), b.Type()))
		return
	}
	switch av := a.Interface().(type) {
	case *ast.Object, *ast.Scope:
		return
	case *ast.CommentGroup:
		bv := b.Interface().(*ast.CommentGroup)
		if strings.HasSuffix(path, ".Doc") && av.Text() != bv.Text() {
			dc.problems = append(dc.problems, fmt.Sprintf("%s: doc comment changed: %q vs %q", path, av.Text(), bv.Text()))
		}
		return
	case *ast.SelectorExpr:
		bv := b.Interface().(*ast.SelectorExpr)
		if ax, ok := av.X.(*ast.Ident); ok {
			if bx, ok := bv.X.(*ast.Ident); ok {
				ap, aok := dc.srcImports[ax.Name]
				bp, bok := dc.genImports[bx.Name]
				if aok && bok && ax.Obj == nil && bx.Obj == nil {
					if ap != bp {
						dc.problems = append(dc.problems, fmt.Sprintf("%s: qualifier %s (%s) became %s (%s)", path, ax.Name, ap, bx.Name, bp))
					}
					if av.Sel.Name != bv.Sel.Name {
						dc.problems = append(dc.problems, fmt.Sprintf("%s: selector %s became %s", path, av.Sel.Name, bv.Sel.Name))
					}
					return
				}
			}
		}
	case *ast.Ident:
		bv := b.Interface().(*ast.Ident)
		if !dc.identOK(av.Name, bv.Name) {
			dc.problems = append(dc.problems, fmt.Sprintf("%s: identifier %s became %s", path, av.Name, bv.Name))
		}
		return
	}
	switch a.Kind() {
	case reflect.Ptr:
		dc.cmp(a.Elem(), b.Elem(), path)
	case reflect.Struct:
		for i := 0; i < a.NumField(); i++ {
			fn := a.Type().Field(i).Name
			dc.cmp(a.Field(i), b.Field(i), path+"."+fn)
		}
	case reflect.Slice:
		if a.Type() == reflect.TypeOf([]ast.Stmt(nil)) {
			// explicit empty statements are not preserved by gofmt and carry no meaning
			strip := func(v reflect.Value) reflect.Value {
				out := reflect.MakeSlice(v.Type(), 0, v.Len())
				for i := 0; i < v.Len(); i++ {
					if _, ok := v.Index(i).Interface().(*ast.EmptyStmt); !ok {
						out = reflect.Append(out, v.Index(i))
					}
				}
				return out
			}
			a, b = strip(a), strip(b)
		}
		if a.Len() != b.Len() {
			dc.problems = append(dc.problems, fmt.Sprintf("%s: %d elements became %d", path, a.Len(), b.Len()))
			return
		}
		for i := 0; i < a.Len(); i++ {
			dc.cmp(a.Index(i), b.Index(i), fmt.Sprintf("%s[%d]", path, i))
		}
	default:
		if a.Type() == posType {
			if token.Pos(a.Int()).IsValid() != token.Pos(b.Int()).IsValid() {
				dc.problems = append(dc.problems, fmt.Sprintf("%s: token presence changed", path))
			}
			return
		}
		if !reflect.DeepEqual(a.Interface(), b.Interface()) {
			dc.problems = append(dc.problems, fmt.Sprintf("%s: %v became %v", path, a.Interface(), b.Interface()))
		}
	}
}

// compareCopied checks that wire_gen.go contains exactly the non-injector,
// non-import declarations of the injector file, once each, in order,
// structurally identical up to qualifiers and numbered renaming.
func compareCopied(srcs []string, gen string, injectors map[string]bool) []string {
	fset := token.NewFileSet()
	var sfs []*ast.File
	for i, src := range srcs {
		sf, err := parser.ParseFile(fset, fmt.Sprintf("decls%d.go", i), src, parser.ParseComments)
		if err != nil {
			return []string{"source does not parse: " + err.Error()}
		}
		sfs = append(sfs, sf)
	}
	gf, err := parser.ParseFile(fset, "wire_gen.go", gen, parser.ParseComments)
	if err != nil {
		return []string{"generated file does not parse: " + err.Error()}
	}
	pick := func(f *ast.File, generated bool) []ast.Decl {
		var out []ast.Decl
		for _, d := range f.Decls {
			switch x := d.(type) {
			case *ast.GenDecl:
				if x.Tok == token.IMPORT {
					continue
				}
				if generated && x.Tok == token.VAR && len(x.Specs) > 0 {
					if vs, ok := x.Specs[0].(*ast.ValueSpec); ok && len(vs.Names) > 0 && strings.HasPrefix(vs.Names[0].Name, "_wire") {
						continue
					}
				}
			case *ast.FuncDecl:
				if x.Recv == nil && injectors[x.Name.Name] {
					continue
				}
			}
			out = append(out, d)
		}
		return out
	}
	var sd []ast.Decl
	var owner []*ast.File
	for _, sf := range sfs {
		for _, d := range pick(sf, false) {
			sd = append(sd, d)
			owner = append(owner, sf)
		}
	}
	gd := pick(gf, true)
	if len(sd) != len(gd) {
		return []string{fmt.Sprintf("the injector files have %d non-injector declarations, the generated file %d", len(sd), len(gd))}
	}
	stdDefaults := map[string]string{}
	dc := &declCmp{genImports: importTable(gf, stdDefaults)}
	for i := range sd {
		dc.srcImports = importTable(owner[i], stdDefaults)
		dc.cmp(reflect.ValueOf(sd[i]), reflect.ValueOf(gd[i]), fmt.Sprintf("decl[%d]", i))
	}
	return dc.problems
}

// nodeKinds counts the go/ast node kinds of a source text.
func nodeKinds(src string) map[string]bool {
	fset := token.NewFileSet()
	f, err := parser.ParseFile(fset, "x.go", src, 0)
	out := map[string]bool{}
	if err != nil {
		return out
	}
	ast.Inspect(f, func(n ast.Node) bool {
		if n != nil {
			out[strings.TrimPrefix(reflect.TypeOf(n).String(), "*ast.")] = true
		}
		return true
	})
	return out
}

type c15Obs struct {
	Gen            *ProgObs
	Src, Src2, Out string
	BuildErr       string
	ProbeInj       string // output of the probe built with -tags wireinject (original declarations)
	ProbeGen       string // output of the probe built without the tag (copies)
	RunErr         string
}

func c15Eval(c *Ctx) func([]*C15Case) []c15Obs {
	return func(cs []*C15Case) []c15Obs {
		out := make([]c15Obs, len(cs))
		const chunk = 120
		type rng struct{ lo, hi int }
		var rs []rng
		for lo := 0; lo < len(cs); lo += chunk {
			hi := lo + chunk
			if hi > len(cs) {
				hi = len(cs)
			}
			rs = append(rs, rng{lo, hi})
		}
		Parallel(len(rs), 3, func(ri int) {
			w, err := NewWorkspace(c)
			if err != nil {
				c.Inconclusive("workspace: " + err.Error())
				return
			}
			defer w.Remove()
			var names []string
			for i := rs[ri].lo; i < rs[ri].hi; i++ {
				n := fmt.Sprintf("d%05d", i)
				fs := cs[i].files(n)
				out[i].Src = fs["decls.go"]
				out[i].Src2 = fs["decls2.go"]
				w.AddProg(n, fs)
				names = append(names, n)
			}
			gen := w.GenAll(names, GenOpts{})
			var ok []string
			for k, i := 0, rs[ri].lo; i < rs[ri].hi; i, k = i+1, k+1 {
				out[i].Gen = gen[names[k]]
				out[i].Out = w.GenFile(names[k], "wire_gen.go")
				if g := gen[names[k]]; g != nil && g.Status == "done" && !g.Failed() && out[i].Out != "" {
					ok = append(ok, names[k])
				}
			}
			if len(ok) == 0 {
				return
			}
			berr, err := w.BuildAll(ok, 10*time.Minute)
			if err != nil {
				c.Inconclusive("go build: " + err.Error())
				return
			}
			var runnable []string
			for k, i := 0, rs[ri].lo; i < rs[ri].hi; i, k = i+1, k+1 {
				out[i].BuildErr = berr[names[k]]
			}
			for _, n := range ok {
				if berr[n] == "" {
					runnable = append(runnable, n)
				}
			}
			if len(runnable) == 0 {
				return
			}
			var mb strings.Builder
			mb.WriteString("package main\n\nimport (\n\t\"fmt\"\n")
			for _, n := range runnable {
				fmt.Fprintf(&mb, "\t%s %q\n", n, ProgPath(n))
			}
			mb.WriteString(")\n\nfunc run(name string, f func() string) {\n\tdefer func() {\n\t\tif r := recover(); r != nil {\n\t\t\tfmt.Printf(\"%s\\tPANIC %v\\n\", name, r)\n\t\t}\n\t}()\n\tfmt.Printf(\"%s\\t%q\\n\", name, f())\n}\n\nfunc main() {\n")
			for _, n := range runnable {
				fmt.Fprintf(&mb, "\trun(%q, %s.ZzProbe)\n", n, n)
			}
			mb.WriteString("}\n")
			WriteTree(w.Dir, map[string]string{"cmd/probe/main.go": mb.String()})
			outputs := map[string]map[string]string{}
			for _, mode := range []string{"inj", "gen"} {
				bin := filepath.Join(w.Dir, "probe-"+mode)
				args := []string{"build", "-o", bin}
				if mode == "inj" {
					args = append(args, "-tags", "wireinject")
				}
				args = append(args, "./cmd/probe")
				if r := w.Env.Go(w.Dir, 15*time.Minute, nil, args...); r.Exit != 0 {
					for _, n := range runnable {
						_ = n
					}
					c.Inconclusive("building the probe (" + mode + ") failed: " + tailStr(r.Stderr, 1500))
					return
				}
				r := w.Env.Run(w.Dir, 5*time.Minute, nil, bin)
				m := map[string]string{}
				sc := bufio.NewScanner(strings.NewReader(r.Stdout))
				sc.Buffer(make([]byte, 1<<20), 1<<26)
				for sc.Scan() {
					parts := strings.SplitN(sc.Text(), "\t", 2)
					if len(parts) == 2 {
						m[parts[0]] = parts[1]
					}
				}
				outputs[mode] = m
				if r.Exit != 0 {
					for _, n := range runnable {
						if _, ok := m[n]; !ok {
							m[n] = "DIED " + tailStr(r.Stderr, 300)
						}
					}
				}
			}
			for k, i := 0, rs[ri].lo; i < rs[ri].hi; i, k = i+1, k+1 {
				out[i].ProbeInj = outputs["inj"][names[k]]
				out[i].ProbeGen = outputs["gen"][names[k]]
			}
		})
		return out
	}
}

func judgeC15(c *Ctx, cs *C15Case, o c15Obs, count bool) *Fail {
	if o.Gen == nil || o.Gen.Status == "skipped" {
		return nil
	}
	if count {
		c.Eval(1)
	}
	switch o.Gen.Status {
	case "loaderr", "silent":
		c.GenBug("C15 source does not type-check: " + tailStr(o.Gen.Stderr, 1200))
		return nil
	case "panic":
		return Failf("C15 wire crashed while copying declarations", "%s", tailStr(o.Gen.Stderr, 2500))
	case "timeout":
		c.Inconclusive("wire timed out")
		return nil
	}
	if o.Gen.Failed() || o.Out == "" {
		return Failf("C15 injector file with ordinary declarations was rejected", "%s", o.Gen.DiagText())
	}
	if count {
		kinds := nodeKinds(o.Src)
		c.Class(fmt.Sprintf("node-kinds>=%d", (len(kinds)/10)*10))
		collide := false
		for _, f := range cs.Funcs {
			for _, st := range f.Stmts {
				for _, n := range st.Names {
					switch n {
					case "fmt", "strconv", "strings", "errors", "dep", "dep2", "level", "counter", "rec", "join":
						collide = true
					}
				}
			}
		}
		if len(kinds) >= 25 || collide {
			c.Nontrivial(cs.key())
		}
		if cs.DotDep && cs.usesDep2() {
			c.Class("dot-imported-dependency")
		}
		if collide {
			c.Class("local-collides-with-generated-or-package-name")
		}
		for k := range kinds {
			c.Class("kind=" + k)
		}
	}
	if probs := compareCopied([]string{o.Src, o.Src2}, o.Out, map[string]bool{"InitBox": true, "InitBox2": true}); len(probs) > 0 {
		return Failf("C15 copied declarations are not structurally identical to the originals", "%s\n--- wire_gen.go\n%s", strings.Join(probs, "\n"), o.Out)
	}
	if o.BuildErr != "" {
		return Failf("C15 copied declarations do not compile", "%s\n--- wire_gen.go\n%s", o.BuildErr, o.Out)
	}
	if o.ProbeInj == "" || o.ProbeGen == "" {
		return nil
	}
	if strings.HasPrefix(o.ProbeInj, "PANIC") || strings.HasPrefix(o.ProbeInj, "DIED") {
		c.GenBug("C15 original declarations misbehave: " + o.ProbeInj)
		return nil
	}
	if o.ProbeInj != o.ProbeGen {
		return Failf("C15 copied declarations behave differently from the originals", "original (built with -tags wireinject): %s\ncopy (wire_gen.go):                   %s\n--- wire_gen.go\n%s", o.ProbeInj, o.ProbeGen, o.Out)
	}
	return nil
}

func init() {
	Register(&Property{
		ID: "C15", Level: "exploration",
		Rule:        fmt.Sprintf("generated injector files: 1-5 functions of 1-7 statements drawn from %d statement templates (all statement and expression forms: labels/goto/break/continue, for/range, if/else with init, switch with init/fallthrough/tagless, type switch with and without a bound variable, select/send/receive, defer/recover, go, closures with shadowing, composite literals of struct/slice/array/map with local variables as keys and indices, 2- and 3-index slices, type assertions, conversions, variadic calls, inc/dec and assignment operators, local type/var/const declarations, anonymous structs, func values, method values) plus a fixed block of package-level declarations (struct tags, embedding, interfaces, iota constants, multi-name and grouped vars, generic functions and types incl. two type parameters, channel directions, methods incl. one named like the injector, doc comments, func init); locals and labels are named from a pool that collides with the generated file's import names (fmt, strconv, strings, errors, dep, dep2 and their numbered forms) and with package-level identifiers; the file imports its packages under drawn aliases, two of them have the same package name. Oracle 1: wire_gen.go parsed back holds exactly the non-injector, non-import declarations, once, in order, and a reflection walker over go/ast (so a dropped field is caught like a dropped node) finds them equal up to qualifiers resolved through each file's import table and numbered renaming of identifiers. Oracle 2: the package builds, and a probe calling every copied function prints the same output built with -tags wireinject (originals) and without (copies). Non-trivial = file covering >=25 node kinds or with a colliding local; distinct by case hash.", len(c15Templates)),
		Assumptions: []string{"the template catalogue is hand-written; node-kind coverage per run is reported in coverage.classes", "renaming consistency is judged structurally only up to the numbered-suffix pattern; wrong bindings are caught by compilation and by the behavioural comparison"},
		Shards: func(tier string) int {
			if tier == "thorough" {
				return 12
			}
			return 8
		},
		Timeout: func(tier string) time.Duration {
			if tier == "thorough" {
				return 120 * time.Minute
			}
			return 25 * time.Minute
		},
		Run: func(c *Ctx) {
			n := 0
			Batched(c, "C15", c.Pick(200, 1500), time.Duration(c.Pick(90, 300))*time.Second,
				func(t *rapid.T) *C15Case { return genC15().Draw(t, "file") },
				func(cs *C15Case) string { return cs.key() }, c15Eval(c),
				func(cs *C15Case, o c15Obs) *Fail {
					n++
					if n%60 == 1 {
						c.Sample(map[string]interface{}{"case": cs, "source_tail": tailStr(o.Src, 700), "probe": tailStr(o.ProbeGen, 200)})
					}
					return judgeC15(c, cs, o, true)
				})
		},
		ReplayCase: func(c *Ctx, kind string, raw json.RawMessage) *Fail {
			var cs C15Case
			if err := json.Unmarshal(raw, &cs); err != nil {
				c.Inconclusive("bad replay case: " + err.Error())
				return nil
			}
			obs := c15Eval(c)([]*C15Case{&cs})
			return judgeC15(c, &cs, obs[0], false)
		},
	})
}

var _ = sort.Strings
var _ = os.Remove
