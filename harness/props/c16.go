package props

import (
	"encoding/json"
	"fmt"
	"os"
	"path/filepath"
	"strings"
	"time"

	"pgregory.net/rapid"

	. "verif/harness/eng"
)

// C16: output is deterministic and independent of location and dependency
// layout.  A case is an accepted program whose dependency packages carry
// external import paths, rendered into four layouts (two module checkouts of
// different depth, GOPATH, GOPATH with a vendor directory) and generated
// through several invocation forms, alone and together with companion
// packages, repeatedly.

const extRoot = "example.org/ext"

func genC16() *rapid.Generator[*Spec] {
	return rapid.Custom(func(t *rapid.T) *Spec {
		s := GenWF(WFOpts{NoFaults: true, Names: 40, MaxNodes: 14}).Draw(t, "program")
		s.ExtRoot = extRoot
		s.NoTrace = true
		for i := 1; i < len(s.Pkgs); i++ {
			// internal/ directories of another module cannot be imported
			s.Pkgs[i].Dir = strings.Replace(s.Pkgs[i].Dir, "internal/", "inner/", 1)
		}
		s.Plan = nil
		nb := rapid.IntRange(0, 2).Draw(t, "nblank")
		for i := 0; i < nb; i++ {
			s.Blank = append(s.Blank, []string{"example.com/m/blank", "example.org/ext/blank2"}[i])
		}
		if len(s.Pkgs) > 1 && rapid.IntRange(0, 99).Draw(t, "valuepair") < 60 {
			// one injector that needs values written in several packages (the
			// injector's own and dependencies): several entries in the value table
			// whose declaring files lie in directories that sort differently
			// from layout to layout
			var ps []*Type
			args := []Ref{}
			nv := rapid.IntRange(2, 4).Draw(t, "nvalues")
			for i := 0; i < nv; i++ {
				pk := rapid.IntRange(0, len(s.Pkgs)-1).Draw(t, "valuepkg")
				if i == 0 {
					pk = 0
				} else if i == 1 {
					pk = len(s.Pkgs) - 1
				}
				vt := Named(addFreshStruct(s, pk, fmt.Sprintf("ZzV%d", i)))
				vi := addItem(s, Item{Kind: "value", Out: vt, Tok: 9000 + i})
				if pk == 0 && rapid.Bool().Draw(t, "direct") {
					args = append(args, RItem(vi))
				} else {
					s.Sets = append(s.Sets, Set{Pkg: pk, Name: fmt.Sprintf("ZzVSet%d", i), Args: []Ref{RItem(vi)}, AliasOf: -1})
					args = append(args, RSet(len(s.Sets)-1))
				}
				ps = append(ps, vt)
			}
			vc := Named(addFreshStruct(s, 0, "ZzVC"))
			ci := addItem(s, Item{Kind: "func", Pkg: 0, Name: "ZzProvideVC", Params: ps, Out: vc})
			args = append(args, RItem(ci))
			if rapid.Bool().Draw(t, "shufflevalues") {
				args = rapid.Permutation(args).Draw(t, "valueorder")
			}
			s.Injectors = append(s.Injectors, Injector{Name: "ZzInjectVC", Out: vc, Args: args, Panic: rapid.Bool().Draw(t, "vcpanic")})
			s.Note = strings.TrimSpace(s.Note + " value-pair")
		}
		if rapid.IntRange(0, 99).Draw(t, "copieddecl") < 50 {
			// a declaration Wire copies into its output, with several distinct
			// locals that all collide with the name an import takes there
			var b strings.Builder
			// (math/bits and unicode/utf8 have no dependencies of their own: Wire
			// type-checks every dependency from source on each run)
			b.WriteString("// ZzCopied is an ordinary function of the injector file.\n//\n//go:noinline\nfunc ZzCopied(zzv []uint) string {\n\tzzout := string(rune('a' + zzb.Len(3) + zzu.RuneLen('x')))\n")
			n := rapid.IntRange(2, 6).Draw(t, "locals")
			for i := 0; i < n; i++ {
				name := rapid.SampledFrom([]string{"bits", "utf8"}).Draw(t, "local")
				switch rapid.IntRange(0, 3).Draw(t, "scope") {
				case 0:
					fmt.Fprintf(&b, "\t{\n\t\t%s := zzb.Len(uint(len(zzout) + %d))\n\t\tzzout += string(rune('a' + %s))\n\t}\n", name, i, name)
				case 1:
					fmt.Fprintf(&b, "\tfor _, %s := range zzv {\n\t\tzzout += string(rune('b' + zzb.OnesCount(%s) + zzu.RuneLen(rune(%d))))\n\t}\n", name, name, 200*i)
				case 2:
					fmt.Fprintf(&b, "\tif %s := zzu.RuneCountInString(zzout) + %d; %s > 1 {\n\t\tzzout += string(rune('c' + zzb.TrailingZeros(uint(%s))))\n\t}\n", name, i+1, name, name)
				case 3:
					fmt.Fprintf(&b, "\tzzout += func(%s int) string { return string(rune('d' + zzb.Len(uint(%s)) + zzu.RuneLen(rune(%d)))) }(len(zzout))\n", name, name, 70*i)
				}
			}
			b.WriteString("\treturn zzout\n}\n")
			s.InjExtra = b.String()
			s.InjExtraImports = map[string]string{"math/bits": "zzb", "unicode/utf8": "zzu"}
			s.Note = strings.TrimSpace(s.Note + " copied-decl")
		}
		// doc comments: Wire copies them into its output, wherever it is invoked from
		for k := range s.Injectors {
			if rapid.IntRange(0, 99).Draw(t, "doc") < 70 {
				s.Injectors[k].Doc = fmt.Sprintf("%s builds the result number %d.", s.Injectors[k].Name, k)
			}
		}
		s.Note = strings.TrimSpace(s.Note + " C16")
		return s
	})
}

type c16Obs struct {
	Status  string
	Outputs map[string]string // configuration label -> wire_gen.go content
	Errs    []string
	Base    []string // workspace base directories (must not leak into the output)
}

var companionAAA = `//go:build wireinject

package aaa

import (
	_ "example.com/m/blank"

	"github.com/google/wire"
)

type A struct{}

func NewA() *A { return nil }

func InitA() *A {
	wire.Build(NewA)
	return nil
}

func InitS() string {
	wire.Build(wire.Value("s"))
	return ""
}

func InitI() int {
	wire.Build(wire.Value(1))
	return 0
}
` + companionValues

// companionValues declares value injectors whose generated variable names
// (_wireT<k>Value) are the ones generated programs typically need too.
var companionValues = func() string {
	var b strings.Builder
	for k := 0; k < 14; k++ {
		fmt.Fprintf(&b, "\ntype T%d struct{ Z int }\n\nfunc InitT%d() T%d {\n\twire.Build(wire.Value(T%d{Z: %d}))\n\treturn T%d{}\n}\n", k, k, k, k, k, k)
	}
	return b.String()
}()

const companionZZZ = `//go:build wireinject

package zzz

import (
	_ "example.org/ext/blank2"

	"github.com/google/wire"
)

type Z struct{}

func NewZ() Z { return Z{} }

func InitZ() Z {
	wire.Build(NewZ)
	return Z{}
}

func InitN() int {
	wire.Build(wire.Value(7))
	return 0
}
`

// c16Layout writes the program into a layout and returns (working root for
// relative invocations, environment additions, path of the output file).
func c16Layout(s *Spec, files map[string]string, marker, base, layout string) (root string, env []string, out string, err error) {
	tree := map[string]string{}
	depPrefix := map[string]string{} // "<Dir>/" -> ext relative path
	for i := 1; i < len(s.Pkgs); i++ {
		depPrefix[s.Pkgs[i].Dir+"/"] = s.Pkgs[i].Dir
	}
	split := func(k string) (isDep bool, rel string) {
		best := ""
		for pre := range depPrefix {
			if strings.HasPrefix(k, pre) && len(pre) > len(best) {
				// the remainder must be a plain file name
				if !strings.Contains(k[len(pre):], "/") {
					best = pre
				}
			}
		}
		if best != "" {
			return true, k
		}
		return false, k
	}
	name := s.ProgName()
	var modRoot, extDir, wireDir string
	switch layout {
	case "mod", "mod-deep":
		modRoot = filepath.Join(base, "m")
		if layout == "mod-deep" {
			modRoot = filepath.Join(base, "some", "deeper", "checkout", "location", "m")
		}
		extDir = filepath.Join(modRoot, "extmod")
		wireDir = filepath.Join(modRoot, "wiremod")
		tree[filepath.Join(modRoot, "go.mod")] = "module example.com/m\n\ngo 1.21\n\nrequire (\n\tgithub.com/google/wire v0.0.0\n\texample.org/ext v0.0.0\n)\n\nreplace github.com/google/wire => ./wiremod\n\nreplace example.org/ext => ./extmod\n"
		tree[filepath.Join(wireDir, "go.mod")] = "module github.com/google/wire\n\ngo 1.21\n"
		tree[filepath.Join(extDir, "go.mod")] = "module example.org/ext\n\ngo 1.21\n\nrequire github.com/google/wire v0.0.0\n"
	case "gopath":
		modRoot = filepath.Join(base, "gp", "src", "example.com", "m")
		extDir = filepath.Join(base, "gp", "src", "example.org", "ext")
		wireDir = filepath.Join(base, "gp", "src", "github.com", "google", "wire")
		env = []string{"GO111MODULE=off", "GOPATH=" + filepath.Join(base, "gp")}
	case "srcvendor":
		// GOPATH-wide vendor directory: $GOPATH/src/vendor/<path>
		modRoot = filepath.Join(base, "gps", "src", "example.com", "m")
		extDir = filepath.Join(base, "gps", "src", "vendor", "example.org", "ext")
		wireDir = filepath.Join(base, "gps", "src", "vendor", "github.com", "google", "wire")
		env = []string{"GO111MODULE=off", "GOPATH=" + filepath.Join(base, "gps")}
	case "vendor":
		modRoot = filepath.Join(base, "gpv", "src", "example.com", "m")
		extDir = filepath.Join(modRoot, "vendor", "example.org", "ext")
		wireDir = filepath.Join(modRoot, "vendor", "github.com", "google", "wire")
		env = []string{"GO111MODULE=off", "GOPATH=" + filepath.Join(base, "gpv")}
	}
	tree[filepath.Join(wireDir, "wire.go")] = marker
	tree[filepath.Join(modRoot, "blank", "blank.go")] = "package blank\n"
	tree[filepath.Join(extDir, "blank2", "blank2.go")] = "package blank2\n"
	tree[filepath.Join(modRoot, "progs", "aaa", "wire.go")] = companionAAA
	tree[filepath.Join(modRoot, "progs", "zzz", "wire.go")] = companionZZZ
	for k, v := range files {
		if dep, rel := split(k); dep {
			tree[filepath.Join(extDir, rel)] = v
		} else {
			tree[filepath.Join(modRoot, "progs", name, rel)] = v
			// a second root package with the same sources: it shares every dependency set
			tree[filepath.Join(modRoot, "progs", name+"twin", rel)] = v
		}
	}
	for p, v := range tree {
		if err := os.MkdirAll(filepath.Dir(p), 0o777); err != nil {
			return "", nil, "", err
		}
		if err := os.WriteFile(p, []byte(v), 0o666); err != nil {
			return "", nil, "", err
		}
	}
	return modRoot, env, filepath.Join(modRoot, "progs", name, "wire_gen.go"), nil
}

func c16Eval(c *Ctx) func([]*Spec) []c16Obs {
	marker, _ := os.ReadFile(filepath.Join(RepoDir(), "wire.go"))
	return func(ss []*Spec) []c16Obs {
		out := make([]c16Obs, len(ss))
		Parallel(len(ss), 4, func(i int) {
			s := ss[i].Clone()
			s.SetName(fmt.Sprintf("q%05d", i))
			o := c16Obs{Status: "done", Outputs: map[string]string{}}
			defer func() { out[i] = o }()
			m := NewModel(s)
			for k := range s.Injectors {
				if v := m.Judge(k); !v.Accept || v.PartialFields {
					o.Status = "genbug: model rejects"
					return
				}
			}
			files := (&Renderer{S: s, M: m}).Files()
			base := c.NewWorkDir("lay")
			defer os.RemoveAll(base)
			o.Base = []string{base}
			name := s.ProgName()
			full := "example.com/m/progs/" + name
			for _, layout := range []string{"mod", "mod-deep", "gopath", "vendor", "srcvendor"} {
				root, env, outPath, err := c16Layout(s, files, string(marker), filepath.Join(base, layout), layout)
				if err != nil {
					o.Status = "layout: " + err.Error()
					return
				}
				pkgDir := filepath.Dir(outPath)
				type inv struct {
					label, dir string
					args       []string
				}
				invs := []inv{
					{"rel", root, []string{"gen", "./progs/" + name}},
					{"dot", pkgDir, []string{"gen", "."}},
					{"dot-default", pkgDir, []string{}},
					{"full", root, []string{"gen", full}},
					{"with-aaa", root, []string{"gen", "./progs/aaa", "./progs/" + name}},
					{"with-zzz-first", root, []string{"gen", "./progs/zzz", "./progs/" + name, "./progs/aaa"}},
					{"all", root, []string{"gen", "./progs/..."}},
					{"twin", root, []string{"gen", "./progs/" + name, "./progs/" + name + "twin"}},
					{"from-sibling", filepath.Join(root, "progs", "aaa"), []string{"gen", "../" + name}},
					{"from-elsewhere-full", filepath.Join(root, "blank"), []string{"gen", full}},
					{"rel-again", root, []string{"gen", "./progs/" + name}},
					{"rel-third", root, []string{"gen", "./progs/" + name}},
				}
				for _, iv := range invs {
					os.Remove(outPath)
					r := c.Env.Wire(iv.dir, 3*time.Minute, env, iv.args...)
					c.Eval(1)
					label := layout + "/" + iv.label
					if r.TimedOut {
						o.Status = "timeout"
						return
					}
					if strings.Contains(r.Stderr, "panic:") && strings.Contains(r.Stderr, "goroutine ") {
						o.Status = "panic"
						o.Errs = append(o.Errs, label+": "+tailStr(r.Stderr, 1500))
						return
					}
					b, err := os.ReadFile(outPath)
					if err != nil || r.Exit != 0 {
						o.Errs = append(o.Errs, fmt.Sprintf("%s: exit %d, output missing=%v: %s", label, r.Exit, err != nil, tailStr(r.Stderr, 800)))
						continue
					}
					o.Outputs[label] = string(b)
					if iv.label == "twin" {
						tb, terr := os.ReadFile(filepath.Join(filepath.Dir(filepath.Dir(outPath)), name+"twin", "wire_gen.go"))
						if terr != nil {
							o.Errs = append(o.Errs, label+": the twin package got no output")
						} else {
							o.Outputs[label+"-second-package"] = string(tb)
						}
						os.Remove(filepath.Join(filepath.Dir(filepath.Dir(outPath)), name+"twin", "wire_gen.go"))
					}
				}
			}
		})
		return out
	}
}

func judgeC16(c *Ctx, s *Spec, o c16Obs, count bool) *Fail {
	if strings.HasPrefix(o.Status, "genbug") || strings.HasPrefix(o.Status, "layout") {
		c.GenBug(o.Status)
		return nil
	}
	if o.Status == "panic" {
		return Failf("C16 wire crashed", "%v", o.Errs)
	}
	if o.Status == "timeout" {
		c.Inconclusive("C16 wire timed out")
		return nil
	}
	canon, ok := o.Outputs["mod/rel"]
	if !ok {
		// the program is not accepted in the canonical configuration: generator problem or C10's business
		c.GenBug("canonical generation failed: " + strings.Join(o.Errs, " | "))
		return nil
	}
	if len(o.Errs) > 0 {
		return Failf("C16 generation succeeds in one configuration and fails in another", "canonical (module mode, relative pattern) succeeded; failures:\n%s", strings.Join(o.Errs, "\n"))
	}
	for _, label := range SortedKeys(o.Outputs) {
		got := o.Outputs[label]
		if got != canon {
			return Failf("C16 output differs between configurations", "configuration %s differs from mod/rel\n--- mod/rel\n%s\n--- %s\n%s", label, canon, label, got)
		}
	}
	for _, b := range o.Base {
		if strings.Contains(canon, b) {
			return Failf("C16 output contains a run-specific path", "%s", canon)
		}
	}
	if strings.Contains(canon, "vendor/") {
		return Failf("C16 output contains a vendor path", "%s", canon)
	}
	if count {
		imports := strings.Count(canon, "\"example.")
		vals := strings.Count(canon, "_wire")
		c.Class(fmt.Sprintf("imports>=%d", minInt(imports, 5)))
		if imports >= 3 || vals >= 2 || len(s.Blank) > 0 {
			c.Nontrivial(s.Hash())
		}
		c.Class(fmt.Sprintf("configurations=%d", len(o.Outputs)))
	}
	return nil
}

func init() {
	Register(&Property{
		ID: "C16", Level: "exploration",
		Rule:        "accepted WF programs (up to 14 type nodes, 1-4 packages, 40% under adversarial names incl. equal package names, 0-2 blank imports) whose dependency packages carry external import paths, half of them carrying a copied declaration with 2-6 distinct locals that collide with import names, rendered into 5 layouts {module checkout, module checkout at a deeper path, GOPATH (GO111MODULE=off), GOPATH with the dependencies and the wire package under the project's vendor/, GOPATH with them under the GOPATH-wide $GOPATH/src/vendor} x 12 invocations {relative pattern from the module root, `.` in the package directory, default-command form, full import path, from a sibling directory (`../pkg`) and from an unrelated directory by import path, together with a companion package that sorts before it and has a blank import, companions in other orders, ./progs/..., and two repetitions}; 60 wire processes per program. Oracle: every configuration succeeds and writes bytes identical to the canonical one; the output contains neither the workspace path nor a vendor/ segment. evaluations = wire invocations. Non-trivial = program whose output imports >=3 packages, has >=2 value variables, or blank imports; distinct by program hash.",
		Assumptions: []string{"the canonical output is produced by the same binary (metamorphic relation across configurations)", "map-iteration nondeterminism is sampled by 3 repetitions per layout in fresh processes, not excluded"},
		Shards: func(tier string) int {
			if tier == "thorough" {
				return 16
			}
			return 8
		},
		Timeout: func(tier string) time.Duration {
			if tier == "thorough" {
				return 150 * time.Minute
			}
			return 25 * time.Minute
		},
		Run: func(c *Ctx) {
			n := 0
			Batched(c, "C16", c.Pick(15, 120), time.Duration(c.Pick(90, 300))*time.Second,
				func(t *rapid.T) *Spec { return genC16().Draw(t, "program") },
				specKey, c16Eval(c),
				func(s *Spec, o c16Obs) *Fail {
					n++
					if n%3 == 1 {
						c.Sample(map[string]interface{}{"program": s, "configurations": len(o.Outputs), "canonical_output_bytes": len(o.Outputs["mod/rel"])})
					}
					return judgeC16(c, s, o, true)
				})
		},
		ReplayCase: func(c *Ctx, kind string, raw json.RawMessage) *Fail {
			var s Spec
			if err := json.Unmarshal(raw, &s); err != nil {
				c.Inconclusive("bad replay case: " + err.Error())
				return nil
			}
			obs := c16Eval(c)([]*Spec{&s})
			return judgeC16(c, &s, obs[0], false)
		},
	})
}
