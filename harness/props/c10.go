package props

import (
	. "verif/harness/eng"
)

func init() {
	wfProperty("C10", "exploration",
		"WF generator output (programs the reference model accepts: one source per type, acyclic, complete, every direct Build item used, valid signatures, bindings co-located with a provider of their concrete type) must be accepted by `wire gen`.",
		func(c *Ctx) WFOpts { return WFOpts{NoFaults: true} },
		func(c *Ctx) int { return c.Pick(300, 1500) }, judgeC10Accept, wfAssume)
}
