package props

import (
	"encoding/json"
	"fmt"
	"strings"
	"time"

	"pgregory.net/rapid"

	. "verif/harness/eng"
)

// C10: well-formed programs are accepted however providers are grouped or
// ordered.  A case is a well-formed base program put through 1-4 drawn
// meaning-preserving transformations; the reference model (which is
// order- and grouping-independent) supplies the expected wiring of every
// variant, so equal wiring across variants follows from each variant matching
// the model.

func transformC10(t *rapid.T, s *Spec) []string {
	x := &mutCtx{t: t, s: s}
	var applied []string
	accepts := func(c *Spec) bool {
		c.SetName("x")
		m := NewModel(c)
		for k := range c.Injectors {
			v := m.Judge(k)
			if !v.Accept || v.PartialFields {
				return false
			}
		}
		return true
	}
	n := x.intn(1, 4, "ntransforms")
	for i := 0; i < n; i++ {
		c := s.Clone()
		cx := &mutCtx{t: t, s: c}
		kind := x.pick([]string{"permute", "permute", "wrap", "wrap", "flatten", "flatten", "moveset", "aliasset", "joint", "splitinline"}, "transform")
		switch kind {
		case "permute":
			for _, l := range argLists(c) {
				if len(*l) > 1 {
					*l = rapid.Permutation(*l).Draw(t, "perm")
				}
			}
		case "wrap":
			// wrap some direct Build items of one injector into a new set
			k := cx.intn(0, len(c.Injectors)-1, "inj")
			in := &c.Injectors[k]
			var keep, moved []Ref
			for _, a := range in.Args {
				if cx.pct(50, "wrapthis") {
					moved = append(moved, a)
				} else {
					keep = append(keep, a)
				}
			}
			if len(moved) == 0 {
				continue
			}
			if cx.pct(50, "inline") {
				keep = append(keep, RInline(moved))
			} else {
				c.Sets = append(c.Sets, Set{Pkg: 0, Name: cx.fresh("Grp"), Args: moved, AliasOf: -1})
				keep = append(keep, RSet(len(c.Sets)-1))
			}
			in.Args = keep
		case "flatten":
			// replace a set reference by its members
			lists := argLists(c)
			li := cx.intn(0, len(lists)-1, "list")
			l := lists[li]
			for ai, a := range *l {
				var members []Ref
				if a.IsInline() {
					members = a.Inline
				} else if a.Set >= 0 {
					si := a.Set
					for c.Sets[si].AliasOf >= 0 {
						si = c.Sets[si].AliasOf
					}
					// members must be nameable from the list's package
					if c.Sets[si].Pkg != listPkg(c, li) && listPkg(c, li) != 0 {
						continue
					}
					members = c.Sets[si].Args
				} else {
					continue
				}
				nl := append(append([]Ref{}, (*l)[:ai]...), members...)
				nl = append(nl, (*l)[ai+1:]...)
				*l = nl
				break
			}
		case "moveset":
			if len(c.Sets) == 0 {
				continue
			}
			si := cx.intn(0, len(c.Sets)-1, "set")
			// lowest package that still lets every referrer import the set
			lo := 0
			for sj := range c.Sets {
				if c.Sets[sj].AliasOf == si && c.Sets[sj].Pkg > lo {
					lo = c.Sets[sj].Pkg
				}
			}
			var scan func(rs []Ref, pkg int)
			scan = func(rs []Ref, pkg int) {
				for _, r := range rs {
					if r.Set == si && pkg > lo {
						lo = pkg
					}
					if r.IsInline() {
						scan(r.Inline, pkg)
					}
				}
			}
			for sj := range c.Sets {
				scan(c.Sets[sj].Args, c.Sets[sj].Pkg)
			}
			if lo > c.Sets[si].Pkg {
				continue
			}
			c.Sets[si].Pkg = cx.intn(lo, c.Sets[si].Pkg, "newpkg")
			c.Sets[si].Name = fmt.Sprintf("%sM%d", c.Sets[si].Name, si)
		case "aliasset":
			if len(c.Sets) == 0 {
				continue
			}
			si := cx.intn(0, len(c.Sets)-1, "set")
			c.Sets = append(c.Sets, Set{Pkg: 0, Name: cx.fresh("Also"), AliasOf: si})
			ni := len(c.Sets) - 1
			// injectors refer to the alias instead
			for k := range c.Injectors {
				for ai, a := range c.Injectors[k].Args {
					if a.Set == si {
						c.Injectors[k].Args[ai] = RSet(ni)
					}
				}
			}
		case "joint":
			c.JointSets = !c.JointSets
		case "splitinline":
			// an inline set around every direct item of one injector
			k := cx.intn(0, len(c.Injectors)-1, "inj")
			in := &c.Injectors[k]
			for ai, a := range in.Args {
				if a.Item >= 0 && c.Items[a.Item].Kind != "bind" {
					in.Args[ai] = RInline([]Ref{a})
				}
			}
		}
		if accepts(c) {
			*s = *c
			applied = append(applied, kind)
		}
	}
	return applied
}

func genC10() *rapid.Generator[*Spec] {
	return rapid.Custom(func(t *rapid.T) *Spec {
		if rapid.IntRange(0, 99).Draw(t, "sharedfamily") < 20 {
			s := genShared(false).Draw(t, "shared")
			s.Note += " C10"
			return s
		}
		s := GenWF(WFOpts{NoFaults: true, Names: 20}).Draw(t, "base")
		applied := transformC10(t, s)
		s.Note = strings.TrimSpace(s.Note + " C10 " + strings.Join(applied, "+"))
		refreshPlan(s)
		return s
	})
}

func judgeC10(c *Ctx, e *ProgEval, count bool) *Fail {
	if f := judgeC10Accept(c, e, count); f != nil {
		return f
	}
	if !wfGate(c, e) || !e.Accepted() {
		return nil
	}
	if f := judgeC02(c, e, false); f != nil {
		f.Kind = "C10 wiring of a regrouped/reordered variant differs from the reference: " + f.Kind
		return f
	}
	if count {
		i := strings.Index(e.Spec.Note, "C10")
		tr := ""
		if i >= 0 {
			tr = strings.TrimSpace(e.Spec.Note[i+3:])
		}
		for _, k := range strings.Split(tr, "+") {
			if k != "" {
				c.Class("transform=" + k)
			}
		}
		depth := 0
		var walk func(rs []Ref, d int)
		walk = func(rs []Ref, d int) {
			if d > depth {
				depth = d
			}
			for _, r := range rs {
				if r.IsInline() {
					walk(r.Inline, d+1)
				} else if r.Set >= 0 {
					si := r.Set
					for e.Spec.Sets[si].AliasOf >= 0 {
						si = e.Spec.Sets[si].AliasOf
					}
					walk(e.Spec.Sets[si].Args, d+1)
				}
			}
		}
		kinds := map[string]bool{}
		for _, it := range e.Spec.Items {
			kinds[it.Kind] = true
		}
		for _, in := range e.Spec.Injectors {
			walk(in.Args, 0)
		}
		c.Class(fmt.Sprintf("nesting=%d", depth))
		if depth >= 2 && (kinds["bind"] || kinds["struct"]) {
			c.Nontrivial(e.Spec.Hash())
		}
	}
	return nil
}

func init() {
	Register(&Property{
		ID: "C10", Level: "exploration", Assumptions: wfAssume,
		Rule: "a WF base program (one source per type, acyclic, complete, every direct Build item used, valid signatures, bindings co-located with a provider of their concrete type; 20% under adversarial names) put through 1-4 drawn meaning-preserving transformations: permutation of every wire.Build/wire.NewSet argument list, wrapping direct items into a new named or inline set, flattening a set reference into its members, moving a set to another package, referring to a set through an alias variable, declaring the sets of a package in one multi-name var spec, wrapping each direct item in its own inline set; a transformation is kept only if the reference model still accepts (bindings stay with their concrete type, unused items stay out of the direct Build arguments). Oracle: every variant is accepted by `wire gen`, compiles, and its executed wiring equals the designated sources of the (order- and grouping-independent) reference model, hence the wiring is equal across variants. Non-trivial = variant with >=2 nesting levels and a binding or struct provider; distinct by program hash.",
		Shards: func(tier string) int {
			if tier == "thorough" {
				return 12
			}
			return 8
		},
		Timeout: func(tier string) time.Duration {
			if tier == "thorough" {
				return 120 * time.Minute
			}
			return 25 * time.Minute
		},
		Run: func(c *Ctx) {
			n := 0
			Batched(c, "C10", c.Pick(300, 1500), time.Duration(c.Pick(90, 300))*time.Second,
				func(t *rapid.T) *Spec { return genC10().Draw(t, "program") },
				specKey, evalWF(c),
				func(s *Spec, e *ProgEval) *Fail {
					n++
					if n%50 == 1 {
						sampleWF(c, e)
					}
					return judgeC10(c, e, true)
				})
		},
		ReplayCase: func(c *Ctx, kind string, raw json.RawMessage) *Fail {
			return replaySpec(c, raw, judgeC10)
		},
	})
}
