package props

import (
	"encoding/json"
	"fmt"
	"os"
	"regexp"
	"sort"
	"strings"
	"time"

	"pgregory.net/rapid"

	. "verif/harness/eng"
)

// C19: `wire check` and `wire show` agree with `wire gen`.

// genC19 draws programs of every verdict class: well-formed, each rejection
// class of C05-C11, and well-formed programs with an additional top-level set
// variable that no injector uses and that is ill-formed.
func genC19() *rapid.Generator[*Spec] {
	return rapid.Custom(func(t *rapid.T) *Spec {
		s := genC19base().Draw(t, "base")
		// a type alias of the marker type is a type declaration, not a provider set
		if rapid.IntRange(0, 99).Draw(t, "settypealias") < 15 {
			if s.PkgExtra == nil {
				s.PkgExtra = map[int]string{}
			}
			if s.PkgExtraImports == nil {
				s.PkgExtraImports = map[int][]string{}
			}
			s.PkgExtra[0] += "type ZzSetType = wire.ProviderSet\n\ntype ZzSetDef wire.ProviderSet\n"
			s.PkgExtraImports[0] = append(s.PkgExtraImports[0], "\"github.com/google/wire\"")
		}
		// some injector files are guarded by a second tag, which every command
		// of this check passes: check and show must honour -tags like gen does
		for k := range s.Injectors {
			fi := s.Injectors[k].File
			if _, done := s.InjConstraints[fi]; !done && rapid.IntRange(0, 99).Draw(t, "zzextra") < 25 {
				if s.InjConstraints == nil {
					s.InjConstraints = map[int]string{}
				}
				s.InjConstraints[fi] = rapid.SampledFrom([]string{"wireinject && zzextra", "zzextra && wireinject"}).Draw(t, "zzconstraint")
			}
		}
		return s
	})
}

func genC19base() *rapid.Generator[*Spec] {
	return rapid.Custom(func(t *rapid.T) *Spec {
		switch rapid.SampledFrom([]string{"wf", "wf", "wf", "wf", "c05", "c06", "c08", "c09", "c09", "c11", "badset", "badset", "badset", "chain", "chain", "injshape"}).Draw(t, "family") {
		case "injshape":
			// an injector template with an unusual result list (none at all, two
			// values, error first, ...): gen refuses it, check must too
			s := baseWF(t, WFOpts{})
			k := rapid.IntRange(0, len(s.Injectors)-1).Draw(t, "inj")
			in := &s.Injectors[k]
			switch rapid.SampledFrom([]string{"none", "none", "two", "errfirst", "cleanupfirst"}).Draw(t, "resultlist") {
			case "none":
				in.RawResults = []*Type{}
			case "two":
				in.RawResults = []*Type{in.Out, in.Out}
			case "errfirst":
				in.RawResults = []*Type{{K: "error"}, in.Out}
			case "cleanupfirst":
				in.RawResults = []*Type{Func(nil), in.Out}
			}
			in.ResNames = nil
			s.Note = "C19 injshape"
			refreshPlan(s)
			return s
		case "chain":
			// the conventional layout: every package has `var Set`, each including the next package's
			s := &Spec{ImportAlias: map[int]string{}, Pkgs: []Pkg{{Name: "app"}}}
			x := &mutCtx{t: t, s: s}
			np := x.intn(2, 4, "chainpkgs")
			for i := 1; i < np; i++ {
				s.Pkgs = append(s.Pkgs, Pkg{Dir: fmt.Sprintf("layer%d", i), Name: fmt.Sprintf("layer%d", i)})
			}
			var prev *Type
			for i := np - 1; i >= 0; i-- {
				ti := Named(addFreshStruct(s, i, fmt.Sprintf("L%d", i)))
				it := Item{Kind: "func", Pkg: i, Name: fmt.Sprintf("NewL%d", i), Out: ti}
				if prev != nil {
					it.Params = []*Type{prev}
				}
				if x.pct(40, "extinput") {
					// an input nothing provides: shows up as a required input of the group
					it.Params = append(it.Params, Named(addFreshStruct(s, i, fmt.Sprintf("In%d", i))))
				}
				pi := addItem(s, it)
				args := []Ref{RItem(pi)}
				if prev != nil {
					// the set of the next layer was created in the previous iteration: it is the last set
					args = append(args, RSet(len(s.Sets)-1))
				}
				name := "Set"
				if x.pct(20, "othername") {
					name = fmt.Sprintf("Set%d", i)
				}
				s.Sets = append(s.Sets, Set{Pkg: i, Name: name, Args: args, AliasOf: -1})
				prev = ti
			}
			in := Injector{Name: "Init", Out: prev, Panic: true, Args: []Ref{RSet(len(s.Sets) - 1)}}
			// unsatisfied inputs become injector parameters
			m := NewModel(s)
			s.SetName("x")
			r := m.EvalSet(s.Sets[len(s.Sets)-1].Args, nil)
			seenIn := map[string]bool{}
			for _, k := range r.Keys {
				for _, d := range m.Deps(r.Map[k].Src) {
					if _, ok := r.Map[d]; !ok && !seenIn[d] {
						seenIn[d] = true
						for _, p := range s.Items[r.Map[k].Src.Item].Params {
							if m.K(p) == d {
								in.Params = append(in.Params, Param{Name: fmt.Sprintf("in%d", len(in.Params)), T: p})
							}
						}
					}
				}
			}
			s.Injectors = []Injector{in}
			s.Note = "C19 chain of conventional sets"
			refreshPlan(s)
			return s
		case "c05":
			return genC05().Draw(t, "p")
		case "c06":
			return genC06().Draw(t, "p")
		case "c08":
			return genC08().Draw(t, "p")
		case "c09":
			return genC09().Draw(t, "p")
		case "c11":
			return genC11().Draw(t, "p")
		case "badset":
			s := baseWF(t, WFOpts{})
			x := &mutCtx{t: t, s: s}
			pkg := x.intn(0, len(s.Pkgs)-1, "setpkg")
			ft := Named(addFreshStruct(s, pkg, x.fresh("Q")))
			kind := x.pick([]string{"dup", "cycle", "bindmissing", "sig", "ok-unused"}, "badkind")
			var args []Ref
			switch kind {
			case "dup":
				a := addItem(s, Item{Kind: "func", Pkg: pkg, Name: x.fresh("ProvideQ"), Out: ft})
				b := addItem(s, Item{Kind: "func", Pkg: pkg, Name: x.fresh("ProvideQb"), Out: ft})
				args = []Ref{RItem(a), RItem(b)}
			case "cycle":
				gt := Named(addFreshStruct(s, pkg, x.fresh("QQ")))
				a := addItem(s, Item{Kind: "func", Pkg: pkg, Name: x.fresh("ProvideQ"), Out: ft, Params: []*Type{gt}})
				b := addItem(s, Item{Kind: "func", Pkg: pkg, Name: x.fresh("ProvideQQ"), Out: gt, Params: []*Type{ft}})
				args = []Ref{RItem(a), RItem(b)}
			case "bindmissing":
				mn := x.fresh("MQ")
				s.Decls[ft.Decl].Methods = append(s.Decls[ft.Decl].Methods, Method{Name: mn})
				s.Decls = append(s.Decls, Decl{Pkg: pkg, Name: x.fresh("IQ"), Form: "iface", IMeth: []string{mn}})
				args = []Ref{RItem(addItem(s, Item{Kind: "bind", Out: Named(len(s.Decls) - 1), Conc: ft}))}
			case "sig":
				a := addItem(s, Item{Kind: "func", Pkg: pkg, Name: x.fresh("ProvideQ"), Out: ft, RawResults: []*Type{ft, Basic("int")}})
				args = []Ref{RItem(a)}
			case "ok-unused":
				// a well-formed set that no injector uses, with an unsatisfied input (still fine)
				gt := Named(addFreshStruct(s, pkg, x.fresh("QQ")))
				a := addItem(s, Item{Kind: "func", Pkg: pkg, Name: x.fresh("ProvideQ"), Out: ft, Params: []*Type{gt}})
				args = []Ref{RItem(a)}
			}
			s.Sets = append(s.Sets, Set{Pkg: pkg, Name: x.fresh("Loose"), Args: args, AliasOf: -1})
			s.Note = "C19 badset " + kind
			return s
		}
		s := GenWF(WFOpts{NoFaults: true, Names: 60}).Draw(t, "p")
		if rapid.IntRange(0, 99).Draw(t, "conventionalsets") < 50 {
			// the conventional `var Set = wire.NewSet(...)` in every package
			used := map[string]bool{}
			for si := range s.Sets {
				name := "Set"
				for n := 2; used[fmt.Sprintf("%d/%s", s.Sets[si].Pkg, name)]; n++ {
					name = fmt.Sprintf("Set%d", n)
				}
				clash := false
				for _, d := range s.Decls {
					if d.Pkg == s.Sets[si].Pkg && d.Name == name {
						clash = true
					}
				}
				for _, it := range s.Items {
					if it.Kind == "func" && it.Pkg == s.Sets[si].Pkg && it.Name == name {
						clash = true
					}
				}
				for _, in := range s.Injectors {
					if s.Sets[si].Pkg == 0 && in.Name == name {
						clash = true
					}
				}
				if clash || strings.Contains(s.Extra, " "+name+" ") {
					continue
				}
				used[fmt.Sprintf("%d/%s", s.Sets[si].Pkg, name)] = true
				s.Sets[si].Name = name
			}
		}
		s.Note = strings.TrimSpace(s.Note + " C19 wf")
		return s
	})
}

// modelCheck: must `wire check` fail on this program?
func modelCheckFails(s *Spec) (bool, []string) {
	m := NewModel(s)
	var why []string
	for k := range s.Injectors {
		v := m.Judge(k)
		if !v.Accept {
			for _, e := range v.Errs {
				why = append(why, "injector "+s.Injectors[k].Name+": "+e.Class)
			}
		}
	}
	for si := range s.Sets {
		if s.Sets[si].AliasOf >= 0 {
			continue
		}
		r := m.EvalSet(s.Sets[si].Args, nil)
		for _, e := range r.Errs {
			why = append(why, "set "+s.Sets[si].Name+": "+e.Class)
		}
	}
	return len(why) > 0, why
}

type c19Obs struct {
	E        *ProgEval // gen
	CheckErr bool      // check reported a diagnostic for this program
	CheckOut string
	ShowOut  string // the part of show's stdout that belongs to this program
	Status   string
}

var reProgPath = regexp.MustCompile(`progs/(p\d{5})\b`)

func c19Eval(c *Ctx) func([]*Spec) []c19Obs {
	return func(ss []*Spec) []c19Obs {
		out := make([]c19Obs, len(ss))
		cl := make([]*Spec, len(ss))
		for i, s := range ss {
			cl[i] = s.Clone()
		}
		const chunk = 150
		type rng struct{ lo, hi int }
		var rs []rng
		for lo := 0; lo < len(cl); lo += chunk {
			hi := lo + chunk
			if hi > len(cl) {
				hi = len(cl)
			}
			rs = append(rs, rng{lo, hi})
		}
		Parallel(len(rs), 3, func(ri int) {
			w, err := NewWorkspace(c)
			if err != nil {
				c.Inconclusive("workspace: " + err.Error())
				return
			}
			if os.Getenv("VERIF_KEEP") == "" {
				defer w.Remove()
			}
			var names []string
			evs := map[string]*ProgEval{}
			for i := rs[ri].lo; i < rs[ri].hi; i++ {
				n := fmt.Sprintf("p%05d", i)
				s := cl[i]
				s.SetName(n)
				m := NewModel(s)
				r := &Renderer{S: s, M: m}
				w.AddProg(n, r.Files())
				e := &ProgEval{Spec: s, Name: n}
				for k := range s.Injectors {
					e.Verdicts = append(e.Verdicts, m.Judge(k))
				}
				evs[n] = e
				names = append(names, n)
			}
			// every command runs with -tags zzextra: some programs guard an
			// injector file with `wireinject && zzextra`
			tagFlags := []string{"-tags", "zzextra"}
			gen := w.GenAll(names, GenOpts{Flags: tagFlags})
			unattributable := func(stderr string) bool {
				for _, line := range strings.Split(stderr, "\n") {
					if strings.HasPrefix(line, "wire: ") && line != "wire: error loading packages" && !reProgPath.MatchString(line) {
						return true
					}
				}
				return false
			}
			// programs that do not type-check (generator bugs, found by the bisecting gen run) would
			// make check/show fail for the whole invocation: keep them out
			var loaded []string
			for _, n := range names {
				if g := gen[n]; g != nil && g.Status == "done" {
					loaded = append(loaded, n)
				}
			}
			chk := w.GenAll(loaded, GenOpts{Cmd: "check", Flags: tagFlags, ForceSingle: unattributable})
			shw := w.GenAll(loaded, GenOpts{Cmd: "show", Flags: tagFlags, ForceSingle: unattributable})
			// group outputs: check stderr lines / show stdout blocks by program
			for k, i := 0, rs[ri].lo; i < rs[ri].hi; i, k = i+1, k+1 {
				n := names[k]
				e := evs[n]
				e.Obs = gen[n]
				if e.Obs == nil {
					e.Obs = &ProgObs{Status: "silent", Pkgs: map[string]*PkgResult{}}
				}
				e.GenSrc = w.GenFile(n, "wire_gen.go")
				o := c19Obs{E: e, Status: "done"}
				if co := chk[n]; co != nil {
					if co.Status != "done" {
						o.Status = "check-" + co.Status
						o.CheckOut = co.Stderr
					}
				}
				if so := shw[n]; so != nil && so.Status != "done" && o.Status == "done" {
					o.Status = "show-" + so.Status
					o.CheckOut = so.Stderr
				}
				out[i] = o
			}
			// attribute check's diagnostics and show's blocks to programs by the paths they mention
			for k, n := range names {
				o := &out[rs[ri].lo+k]
				if co := chk[n]; co != nil {
					for _, line := range strings.Split(co.GroupStderr, "\n") {
						if m := reProgPath.FindStringSubmatch(line); m != nil && m[1] == n && strings.HasPrefix(line, "wire: ") {
							o.CheckErr = true
							o.CheckOut += line + "\n"
						}
					}
				}
				if so := shw[n]; so != nil {
					for _, blk := range strings.Split(so.GroupStdout, "\n\n") {
						if strings.HasPrefix(strings.TrimLeft(blk, "\n"), "Injectors:") {
							hdr := false
							for _, line := range strings.Split(blk, "\n") {
								if m := reProgPath.FindStringSubmatch(line); m != nil && m[1] == n {
									if !hdr {
										hdr = true
										o.ShowOut += "Injectors:\n"
									}
									o.ShowOut += line + "\n"
								}
							}
							continue
						}
						if m := reProgPath.FindStringSubmatch(blk); m != nil && m[1] == n {
							o.ShowOut += blk + "\n\n"
						}
					}
				}
			}
		})
		for i := range out {
			if out[i].E != nil {
				c.Eval(1)
			}
		}
		return out
	}
}

// showModel renders what `wire show` must print for the program's top-level
// sets: id -> (included named sets, group name -> types), and the injectors.
type showSet struct {
	Imports []string
	Groups  map[string][]string
}

func showModel(s *Spec) (map[string]*showSet, []string, bool) {
	m := NewModel(s)
	ambiguous := false
	out := map[string]*showSet{}
	for si := range s.Sets {
		st := &s.Sets[si]
		canon := si
		for s.Sets[canon].AliasOf >= 0 {
			canon = s.Sets[canon].AliasOf
		}
		if s.Sets[canon].Pkg != st.Pkg {
			ambiguous = true // cross-package alias: the identifier printed for it is unspecified
			continue
		}
		id := fmt.Sprintf("%q.%s", s.PkgPathOf(s.Sets[canon].Pkg), st.Name)
		r := m.EvalSet(s.Sets[canon].Args, nil)
		if len(r.Errs) > 0 {
			continue
		}
		ss := &showSet{Groups: map[string][]string{}}
		// reachable named sets
		seen := map[int]bool{}
		var walk func(rs []Ref)
		walk = func(rs []Ref) {
			for _, rf := range rs {
				switch {
				case rf.Set >= 0:
					cn := rf.Set
					for s.Sets[cn].AliasOf >= 0 {
						cn = s.Sets[cn].AliasOf
					}
					if !seen[cn] {
						seen[cn] = true
						walk(s.Sets[cn].Args)
					}
				case rf.IsInline():
					walk(rf.Inline)
				}
			}
		}
		walk(s.Sets[canon].Args)
		if si != canon {
			// an alias variable is shown as including the set it names
			seen[canon] = true
		}
		for cn := range seen {
			if cn != canon || si != canon {
				ss.Imports = append(ss.Imports, fmt.Sprintf("%q.%s", s.PkgPathOf(s.Sets[cn].Pkg), s.Sets[cn].Name))
			}
		}
		sort.Strings(ss.Imports)
		memo := map[string]map[string]bool{}
		var inputs func(k string) map[string]bool
		inputs = func(k string) map[string]bool {
			if v, ok := memo[k]; ok {
				return v
			}
			res := map[string]bool{}
			memo[k] = res
			e, ok := r.Map[k]
			if !ok {
				res[k] = true
				return res
			}
			for _, d := range m.Deps(e.Src) {
				for in := range inputs(d) {
					res[in] = true
				}
			}
			return res
		}
		for _, k := range r.Keys {
			ins := SortedKeys(inputs(k))
			name := "no inputs"
			if len(ins) > 0 {
				name = strings.Join(ins, ", ")
			}
			ss.Groups[name] = append(ss.Groups[name], k)
		}
		for g := range ss.Groups {
			sort.Strings(ss.Groups[g])
		}
		out[id] = ss
	}
	var injs []string
	for k := range s.Injectors {
		if m.Judge(k).Accept {
			injs = append(injs, fmt.Sprintf("%q.%s", s.PkgPathOf(0), s.Injectors[k].Name))
		}
	}
	sort.Strings(injs)
	return out, injs, ambiguous
}

// parseShow parses the blocks of `wire show` belonging to one program.
func parseShow(txt string) (map[string]*showSet, []string) {
	sets := map[string]*showSet{}
	var injs []string
	var cur *showSet
	group := ""
	inInj := false
	for _, line := range strings.Split(txt, "\n") {
		switch {
		case line == "":
		case line == "Injectors:":
			inInj = true
			cur = nil
		case !strings.HasPrefix(line, "\t"):
			inInj = false
			cur = &showSet{Groups: map[string][]string{}}
			sets[line] = cur
			group = ""
		case inInj:
			injs = append(injs, strings.TrimSpace(line))
		case cur == nil:
		case strings.HasPrefix(line, "\tOutputs given "):
			group = strings.TrimSuffix(strings.TrimPrefix(line, "\tOutputs given "), ":")
			cur.Groups[group] = []string{}
		case strings.HasPrefix(line, "\t\t\tat "):
		case strings.HasPrefix(line, "\t\t"):
			cur.Groups[group] = append(cur.Groups[group], strings.TrimSpace(line))
		default:
			cur.Imports = append(cur.Imports, strings.TrimSpace(line))
		}
	}
	return sets, injs
}

func judgeC19(c *Ctx, s *Spec, o c19Obs, count bool) *Fail {
	e := o.E
	if e == nil || e.Obs == nil || e.Obs.Status == "skipped" {
		return nil
	}
	if e.Obs.Status == "loaderr" || e.Obs.Status == "silent" {
		c.GenBug(fmt.Sprintf("%s program %s: %s", e.Obs.Status, e.Spec.Hash(), tailStr(e.Obs.Stderr, 800)))
		return nil
	}
	if strings.HasSuffix(o.Status, "panic") || e.Obs.Status == "panic" {
		return Failf("C19 wire crashed", "%s\n%s", o.Status, tailStr(o.CheckOut+e.Obs.Stderr, 2500))
	}
	if o.Status != "done" {
		c.Inconclusive("C19 invocation trouble: " + o.Status)
		return nil
	}
	x := expect(e)
	for _, v := range e.Verdicts {
		if v.Either || v.PartialFields {
			c.Excluded("verdict left open by the documents")
			return nil
		}
	}
	wantFail, why := modelCheckFails(e.Spec)
	genFailed := e.Obs.Failed()
	if count {
		c.Class(fmt.Sprintf("gen-fails=%v/check-fails=%v", !x.accept, wantFail))
		if wantFail != !x.accept || wantFail {
			c.Nontrivial(e.Spec.Hash())
		}
	}
	// gen itself must follow the model (otherwise the comparison is moot; the
	// rejection properties report that)
	if genFailed != !x.accept {
		return nil
	}
	if o.CheckErr != wantFail {
		return Failf("C19 check disagrees with gen and the reference verdict", "model: check must fail=%v (%v); gen failed=%v; check reported errors=%v\ncheck output:\n%s", wantFail, why, genFailed, o.CheckErr, tailStr(o.CheckOut, 1500))
	}
	if wantFail {
		// same classes of errors as gen for injector-level rejections
		if !x.accept {
			ok := false
			for cl := range x.classes {
				for _, ph := range phraseOf[cl] {
					if strings.Contains(o.CheckOut, ph) {
						ok = true
					}
				}
			}
			if !ok {
				return Failf("C19 check reports a different class of error than gen", "expected one of %v\ncheck output:\n%s", classList(x), tailStr(o.CheckOut, 1500))
			}
		}
		return nil
	}
	// show
	want, wantInj, ambiguous := showModel(e.Spec)
	got, gotInj := parseShow(o.ShowOut)
	if ambiguous {
		c.Excluded("cross-package set alias in show")
		return nil
	}
	if strings.Join(wantInj, "|") != strings.Join(gotInj, "|") {
		return Failf("C19 show lists the wrong injectors", "want %v\ngot %v", wantInj, gotInj)
	}
	for id, ws := range want {
		gs, ok := got[id]
		if !ok {
			return Failf("C19 show omits a top-level provider set", "missing %s\nshow output:\n%s", id, tailStr(o.ShowOut, 2000))
		}
		sort.Strings(gs.Imports)
		if strings.Join(ws.Imports, "|") != strings.Join(gs.Imports, "|") {
			return Failf("C19 show lists the wrong included sets", "%s: want %v got %v", id, ws.Imports, gs.Imports)
		}
		if len(ws.Groups) != len(gs.Groups) {
			return Failf("C19 show groups outputs under the wrong inputs", "%s: want groups %v\ngot %v", id, ws.Groups, gs.Groups)
		}
		for g, types := range ws.Groups {
			gt := append([]string(nil), gs.Groups[g]...)
			sort.Strings(gt)
			if strings.Join(types, "|") != strings.Join(gt, "|") {
				return Failf("C19 show groups outputs under the wrong inputs", "%s group %q: want %v got %v", id, g, types, gt)
			}
		}
	}
	for id := range got {
		if _, ok := want[id]; !ok {
			return Failf("C19 show lists a set that is not a top-level provider set variable", "%s", id)
		}
	}
	if count && len(want) > 0 {
		c.Class("show-compared")
	}
	return nil
}

func init() {
	Register(&Property{
		ID: "C19", Level: "exploration", Assumptions: wfAssume,
		Rule: "programs of every verdict class: WF programs, the defect families of C05/C06/C08/C09/C11, and WF programs with an extra top-level set variable that no injector uses (duplicate, cycle, binding without its concrete type, bad provider signature, or well-formed with unsatisfied inputs). `wire gen`, `wire check` and `wire show` run on each. Oracle: check reports errors for a program iff the reference model says some injector is rejected or some top-level set is ill-formed (so gen-ok/check-fail happens exactly for unused ill-formed sets), with a diagnostic of a class gen would give; for error-free programs the parsed `wire show` output must list exactly the top-level set variables, each with exactly the named sets reachable from it, every provided type under the group named by the sorted comma-joined list of its transitive external inputs per the model, and exactly the accepted injectors. Non-trivial = program where check must fail, or gen and check verdicts differ; distinct by program hash.",
		Shards: func(tier string) int {
			if tier == "thorough" {
				return 12
			}
			return 8
		},
		Timeout: func(tier string) time.Duration {
			if tier == "thorough" {
				return 120 * time.Minute
			}
			return 25 * time.Minute
		},
		Run: func(c *Ctx) {
			n := 0
			Batched(c, "C19", c.Pick(300, 1500), time.Duration(c.Pick(90, 300))*time.Second,
				func(t *rapid.T) *Spec { return genC19().Draw(t, "program") },
				specKey, c19Eval(c),
				func(s *Spec, o c19Obs) *Fail {
					n++
					if n%60 == 1 && o.E != nil {
						c.Sample(map[string]interface{}{"note": s.Note, "program": s, "check_errors": o.CheckErr, "show": tailStr(o.ShowOut, 600)})
					}
					return judgeC19(c, s, o, true)
				})
		},
		ReplayCase: func(c *Ctx, kind string, raw json.RawMessage) *Fail {
			var s Spec
			if err := json.Unmarshal(raw, &s); err != nil {
				c.Inconclusive("bad replay case: " + err.Error())
				return nil
			}
			obs := c19Eval(c)([]*Spec{&s})
			return judgeC19(c, &s, obs[0], false)
		},
	})
}
