package props

import (
	"fmt"
	"unicode"
	"unicode/utf8"

	"pgregory.net/rapid"

	. "verif/harness/eng"
)

// WF: the generator of well-formed Wire programs.  A program is built around
// a DAG of "type nodes"; node i is one provided type with one designated
// source.  Everything random is drawn from rapid generators.

type wfNode struct {
	kind       string // func, struct, value, ivalue, bind, field, arg
	deps       []int
	t          *Type // provided type
	base       int   // decl index of the node's fresh named declaration (-1 if none)
	alias      int   // decl index of an alias for t (-1 if none)
	pkg        int
	item       int
	binders    []int
	needStruct bool
	fieldKids  []int
	shape      string
	fieldPtr   bool // field node providing the pointer-to-field form
	extra      bool // not needed by anything: lives only inside nested sets
}

// WFOpts tunes the generator.
type WFOpts struct {
	MaxNodes   int
	MaxPkgs    int
	NoFaults   bool // plan without fault runs
	Sequences  bool // add drawn call sequences alternating faults and successes
	OnlyFunc   bool // restrict to provider functions and arguments (cleanup/err focus)
	MoreErr    bool // bias towards cleanup/error providers
	SingleInj  bool
	NoExtras   bool
	NoVariadic bool
	Names      int // percentage of programs passed through the adversarial naming layer
	ChainPct   int // percentage of programs that are long chains of cleanup/error providers (10-18 of them)
	chain      bool
}

type wfBuilder struct {
	t     *rapid.T
	o     WFOpts
	s     *Spec
	nodes []*wfNode
	basic map[string]bool
	nP    int
}

func (b *wfBuilder) intn(lo, hi int, label string) int {
	return rapid.IntRange(lo, hi).Draw(b.t, label)
}
func (b *wfBuilder) coin(label string) bool       { return rapid.Bool().Draw(b.t, label) }
func (b *wfBuilder) pct(p int, label string) bool { return rapid.IntRange(0, 99).Draw(b.t, label) < p }
func (b *wfBuilder) pick(xs []string, label string) string {
	return rapid.SampledFrom(xs).Draw(b.t, label)
}

func (b *wfBuilder) addDecl(d Decl) int {
	b.s.Decls = append(b.s.Decls, d)
	return len(b.s.Decls) - 1
}

var goKeyword = map[string]bool{"break": true, "case": true, "chan": true, "const": true, "continue": true, "default": true, "defer": true, "else": true, "fallthrough": true, "for": true, "func": true, "go": true, "goto": true, "if": true, "import": true, "interface": true, "map": true, "package": true, "range": true, "return": true, "select": true, "struct": true, "switch": true, "type": true, "var": true}

// GenWF draws a well-formed program.
func GenWF(o WFOpts) *rapid.Generator[*Spec] {
	return rapid.Custom(func(t *rapid.T) *Spec {
		b := &wfBuilder{t: t, o: o, s: &Spec{ImportAlias: map[int]string{}}, basic: map[string]bool{}}
		if o.ChainPct > 0 && b.pct(o.ChainPct, "longchain") {
			b.o.chain = true
			b.o.OnlyFunc = true
			b.o.SingleInj = true
			b.o.MaxNodes = 18
		}
		b.build()
		b.s.JointSets = b.pct(20, "jointsets")
		b.s.SetsInInject = b.pct(30, "setsininject")
		switch b.intn(0, 11, "wireimport") {
		case 0, 1:
			b.s.WireImport = "raw"
		case 2:
			b.s.WireImport = "alias"
		}
		if o.Names > 0 && b.pct(o.Names, "names") {
			ApplyNames(t, b.s)
		}
		// injector files whose build constraint is more than the bare tag, yet
		// holds exactly when wireinject is set (on this toolchain and platform)
		for k := range b.s.Injectors {
			fi := b.s.Injectors[k].File
			if _, done := b.s.InjConstraints[fi]; !done && b.pct(12, "injconstraint") {
				if b.s.InjConstraints == nil {
					b.s.InjConstraints = map[int]string{}
				}
				b.s.InjConstraints[fi] = b.pick([]string{"wireinject && go1.18", "go1.18 && wireinject", "wireinject && (linux || !linux)", "wireinject && !zznever", "wireinject && (go1.18 || zznever)"}, "constraint")
			}
		}
		// a package-level name that coincides with the field name every
		// struct literal of a value expression uses as a key
		for pi := 1; pi < len(b.s.Pkgs); pi++ {
			if b.pct(30, "pkgleveltok") {
				if b.s.PkgExtra == nil {
					b.s.PkgExtra = map[int]string{}
				}
				b.s.PkgExtra[pi] += b.pick([]string{"const Tok = 7\n", "var Tok = 8\n", "func Tok() int { return 9 }\n"}, "tokdecl")
			}
		}
		// named results in some injector templates, with the names Wire itself
		// likes to use for its locals
		for k := range b.s.Injectors {
			in := &b.s.Injectors[k]
			if !b.pct(20, "namedresults") {
				continue
			}
			taken := map[string]bool{}
			for _, p := range in.Params {
				taken[p.Name] = true
			}
			pickFree := func(pool []string, label string) string {
				var free []string
				for _, n := range pool {
					if n == "_" || !taken[n] {
						free = append(free, n)
					}
				}
				n := b.pick(free, label)
				taken[n] = true
				return n
			}
			valPool := []string{"_", "res", "out", "v", "cleanup", "err"}
			if ot := in.Out; ot != nil {
				for ot.K == "ptr" || ot.K == "slice" {
					ot = ot.Elem
				}
				if ot.K == "named" {
					nm := b.s.Decls[ot.Decl].Name
					r0, size := utf8.DecodeRuneInString(nm)
					lower := string(unicode.ToLower(r0)) + nm[size:]
					if lower != nm && !goKeyword[lower] {
						valPool = append(valPool, lower, lower, lower+"2")
					}
				}
			}
			in.ResNames = []string{pickFree(valPool, "resname")}
			if in.Cleanup {
				in.ResNames = append(in.ResNames, pickFree([]string{"_", "cleanup", "cleanup", "cleanup2", "done", "err"}, "clname"))
			}
			if in.Err {
				in.ResNames = append(in.ResNames, pickFree([]string{"_", "err", "err", "err2", "e", "cleanup"}, "errname"))
			}
		}
		return b.s
	})
}

var (
	shapesAny = []string{"S", "S", "*S", "*S", "defint", "defstr", "defslice", "defmap", "deffunc", "defchan", "defptr", "defarr",
		"slice", "slice", "array", "map", "chan", "rchan", "schan", "func", "ptrslice", "ptrptr", "structlit", "basic", "basic", "iface", "ifacelit", "unsafe", "defbool", "deffloat", "emptyiface", "generic", "generic2", "ptrgeneric", "sliceptr", "mapptr", "slice2", "ptrarray", "funcptr", "chanptr", "structlit2"}
	shapesValue  = []string{"S", "*S", "defint", "defstr", "defslice", "defmap", "defarr", "slice", "array", "map", "basic", "defbool", "deffloat", "ptrslice", "generic"}
	shapesMeth   = []string{"S", "*S", "S", "*S", "defint", "*defint", "defslice", "deffunc"}
	shapesStruct = []string{"S", "*S"}
	basicPool    = []string{"int", "string", "bool", "float64", "uint8", "int32", "complex128", "uintptr", "int64", "uint", "float32", "int16"}
)

func (b *wfBuilder) build() {
	o := b.o
	if o.MaxNodes == 0 {
		o.MaxNodes = 12
	}
	if o.MaxPkgs == 0 {
		o.MaxPkgs = 4
	}
	n := b.intn(1, o.MaxNodes, "nodes")
	if o.chain {
		n = b.intn(11, 18, "chainnodes")
	}
	b.nP = b.intn(1, o.MaxPkgs, "pkgs")
	b.s.Pkgs = append(b.s.Pkgs, Pkg{Dir: "", Name: "app"})
	for i := 1; i < b.nP; i++ {
		b.s.Pkgs = append(b.s.Pkgs, Pkg{Dir: fmt.Sprintf("d%d", i), Name: fmt.Sprintf("d%d", i)})
	}
	// A. shape of the DAG
	for i := 0; i < n; i++ {
		nd := &wfNode{base: -1, alias: -1, item: -1}
		max := n - 1 - i
		if max > 3 {
			max = 3
		}
		k := 0
		if o.chain && max > 0 {
			// every node depends on its successor: one long acquisition chain
			nd.deps = append(nd.deps, i+1)
			max--
			if max > 1 {
				max = 1
			}
		}
		if max > 0 {
			k = b.intn(0, max, "outdeg")
			if i == 0 && k == 0 && b.pct(80, "rootdeps") {
				k = 1
			}
		}
		seen := map[int]bool{}
		for _, d := range nd.deps {
			seen[d] = true
		}
		k += len(nd.deps)
		for len(nd.deps) < k {
			d := b.intn(i+1, n-1, "dep")
			if !seen[d] {
				seen[d] = true
				nd.deps = append(nd.deps, d)
			} else if b.pct(50, "depgiveup") {
				k--
			}
		}
		b.nodes = append(b.nodes, nd)
	}
	// give most orphans a parent
	hasParent := make([]bool, n)
	for _, nd := range b.nodes {
		for _, d := range nd.deps {
			hasParent[d] = true
		}
	}
	for j := 1; j < n; j++ {
		if !hasParent[j] && b.pct(75, "adopt") {
			p := b.intn(0, j-1, "adopter")
			if len(b.nodes[p].deps) < 4 {
				b.nodes[p].deps = append(b.nodes[p].deps, j)
			}
		}
	}
	// kinds
	for i, nd := range b.nodes {
		switch len(nd.deps) {
		case 0:
			ks := []string{"func", "func", "value", "ivalue", "arg", "arg", "struct"}
			if o.OnlyFunc {
				ks = []string{"func", "func", "func", "arg"}
			}
			if i == 0 {
				ks = []string{"func", "func", "func", "value", "struct", "ivalue", "arg"}
				if o.OnlyFunc {
					ks = []string{"func"}
				}
			}
			nd.kind = b.pick(ks, "kind0")
		case 1:
			ks := []string{"func", "func", "struct", "bind", "bind", "field", "field"}
			if o.OnlyFunc {
				ks = []string{"func"}
			}
			nd.kind = b.pick(ks, "kind1")
		default:
			ks := []string{"func", "func", "struct"}
			if o.OnlyFunc {
				ks = []string{"func"}
			}
			nd.kind = b.pick(ks, "kind2")
		}
	}
	// B. constraints between nodes
	ifaceKind := func(j int) bool { k := b.nodes[j].kind; return k == "bind" || k == "ivalue" }
	for i, nd := range b.nodes {
		switch nd.kind {
		case "bind":
			j := nd.deps[0]
			if ifaceKind(j) || b.nodes[j].kind == "field" && false {
				nd.kind = "func"
				continue
			}
			b.nodes[j].binders = append(b.nodes[j].binders, i)
		case "field":
			j := nd.deps[0]
			if ifaceKind(j) {
				nd.kind = "func"
				continue
			}
			if b.nodes[j].kind == "struct" {
				// a struct provider leaves unselected fields zero: selecting from
				// them would dereference nil further down
				nd.kind = "func"
				continue
			}
			b.nodes[j].needStruct = true
			b.nodes[j].fieldKids = append(b.nodes[j].fieldKids, i)
		}
	}
	// a field parent that is a struct provider must not select its field
	// children (that would close a cycle); handled when building its decl.

	// C. types, chosen from the leaves up so that field/struct declarations can
	// mention the types of their dependencies.
	for i := n - 1; i >= 0; i-- {
		b.chooseType(i)
	}
	// D. packages: dependencies first
	for i := n - 1; i >= 0; i-- {
		nd := b.nodes[i]
		hi := b.nP - 1
		for _, d := range nd.deps {
			if b.nodes[d].pkg < hi {
				hi = b.nodes[d].pkg
			}
		}
		for _, k := range nd.fieldKids { // parent struct mentions the kid's type
			_ = k
		}
		nd.pkg = b.intn(0, hi, "pkg")
		if i == 0 && b.pct(60, "rootpkg0") {
			nd.pkg = 0
		}
	}
	// field kids' types are mentioned by the parent's declaration: parent pkg <= kid type pkg.
	// Kids have lower index than parents, so fix up after the fact.
	for changed := true; changed; {
		changed = false
		for i, nd := range b.nodes {
			for _, k := range nd.fieldKids {
				if b.nodes[k].pkg < nd.pkg {
					// kid's declarations live in a package the parent cannot import: move the parent down
					nd.pkg = b.nodes[k].pkg
					changed = true
				}
			}
			for _, d := range nd.deps {
				if b.nodes[d].pkg < nd.pkg {
					nd.pkg = b.nodes[d].pkg
					changed = true
				}
			}
			_ = i
		}
	}
	// field kid's own type must be importable by the parent: kid.pkg >= parent.pkg holds
	// (kid.pkg <= parent.pkg from D, parent.pkg <= kid.pkg from the fix-up) => equal.
	for i := range b.nodes {
		b.placeDecls(i)
	}
	// E. items
	for i := range b.nodes {
		b.makeItem(i)
	}
	// F. sets, injectors, plan
	b.makeSetsAndInjectors()
}

// fresh declares a new named struct carrying a token.
func (b *wfBuilder) freshStruct(name string) int {
	return b.addDecl(Decl{Name: name, Form: "struct", Fields: []SField{{Name: "Tok", T: Basic("int")}}})
}

func (b *wfBuilder) chooseType(i int) {
	nd := b.nodes[i]
	var pool []string
	switch {
	case nd.needStruct && nd.kind != "struct" && len(nd.binders) == 0:
		// a parent of field providers may also be a defined pointer type
		pool = []string{"S", "*S", "*S", "PS"}
	case nd.kind == "struct" || nd.needStruct:
		pool = shapesStruct
	case nd.kind == "bind" || nd.kind == "ivalue":
		pool = []string{"iface", "iface", "ifacelit", "ifaceembed", "ifaceonlyembed"}
	case len(nd.binders) > 0 && nd.kind == "value":
		pool = []string{"S", "*S", "defint", "defslice"}
	case len(nd.binders) > 0:
		pool = shapesMeth
	case nd.kind == "value":
		pool = shapesValue
	default:
		pool = shapesAny
	}
	shape := b.pick(pool, "shape")
	// a defined type whose underlying type is the (unnamed) type of the node's
	// first dependency: the dependency's value is assignable to it
	if nd.kind == "func" && len(nd.deps) > 0 && len(nd.binders) == 0 && !nd.needStruct && b.pct(8, "defofdep") {
		if dt := b.nodes[nd.deps[0]].t; dt != nil {
			switch dt.K {
			case "slice", "array", "map", "chan", "func", "ptr", "structlit":
				nd.shape = "defofdep"
				nd.base = b.addDecl(Decl{Name: fmt.Sprintf("T%d", i), Form: "def", Under: dt})
				nd.t = Named(nd.base)
				return
			}
		}
	}
	// another instantiation of the generic type of the node's first dependency:
	// a provider from G[A] to G[B]
	if nd.kind == "func" && len(nd.deps) > 0 && len(nd.binders) == 0 && !nd.needStruct && b.pct(30, "genericofdep") {
		if dt := b.nodes[nd.deps[0]].t; dt != nil {
			g := dt
			if g.K == "ptr" {
				g = g.Elem
			}
			if g.K == "named" && len(g.Args) > 0 {
				var args []*Type
				for _, cand := range [][]*Type{{Basic("bool")}, {Basic("float64")}, {Slice(Basic("string"))}} {
					a := cand
					if len(g.Args) == 2 {
						a = []*Type{g.Args[0], cand[0]}
					}
					key := fmt.Sprintf("%d/%s", g.Decl, TypeString(b.s, &Type{K: "named", Decl: g.Decl, Args: a}))
					if !b.basic[key] {
						b.basic[key] = true
						args = a
						break
					}
				}
				if args != nil {
					nd.shape = "genericofdep"
					nd.t = &Type{K: "named", Decl: g.Decl, Args: args}
					if b.pct(40, "genericofdepptr") {
						nd.t = Ptr(nd.t)
					}
					return
				}
			}
		}
	}
	if shape == "basic" {
		var free []string
		for _, bn := range basicPool {
			if !b.basic[bn] {
				free = append(free, bn)
			}
		}
		if len(free) == 0 {
			shape = "S"
		} else {
			bn := b.pick(free, "basicname")
			b.basic[bn] = true
			nd.t = Basic(bn)
		}
	}
	if shape == "unsafe" {
		if b.basic["unsafe"] {
			shape = "S"
		} else {
			b.basic["unsafe"] = true
			nd.t = &Type{K: "unsafe"}
		}
	}
	if shape == "emptyiface" {
		if b.basic["emptyiface"] || nd.kind == "value" {
			shape = "*S"
		} else {
			b.basic["emptyiface"] = true
			nd.t = &Type{K: "ifacelit"}
		}
	}
	nd.shape = shape
	T := fmt.Sprintf("T%d", i)
	def := func(u *Type) {
		nd.base = b.addDecl(Decl{Name: T, Form: "def", Under: u})
		nd.t = Named(nd.base)
	}
	switch shape {
	case "basic", "unsafe", "emptyiface":
	case "S":
		nd.base = b.freshStruct(T)
		nd.t = Named(nd.base)
	case "*S":
		nd.base = b.freshStruct(T)
		nd.t = Ptr(Named(nd.base))
	case "PS":
		// type Q<i> *T<i>: a pointer parent through its underlying type
		nd.base = b.freshStruct(T)
		nd.t = Named(b.addDecl(Decl{Name: fmt.Sprintf("Q%d", i), Form: "def", Under: Ptr(Named(nd.base))}))
	case "generic", "generic2", "ptrgeneric":
		np := 1
		args := []*Type{Basic("int")}
		if shape == "generic2" {
			np = 2
			args = []*Type{Basic("string"), Slice(Basic("int"))}
		}
		d := Decl{Name: T, Form: "struct", TParams: np, Fields: []SField{{Name: "Tok", T: Basic("int")}, {Name: "V", T: &Type{K: "tparam", Basic: "P0"}}}}
		nd.base = b.addDecl(d)
		nd.t = &Type{K: "named", Decl: nd.base, Args: args}
		if shape == "ptrgeneric" {
			nd.t = Ptr(nd.t)
		}
	case "defint":
		def(Basic("int"))
	case "*defint":
		def(Basic("int"))
		nd.t = Ptr(nd.t)
	case "defstr":
		def(Basic("string"))
	case "defbool":
		def(Basic("bool"))
	case "deffloat":
		def(Basic("float64"))
	case "defslice":
		def(Slice(Basic("int")))
	case "defmap":
		def(Map(Basic("int")))
	case "deffunc":
		def(Func(Basic("int")))
	case "defchan":
		def(Chan(0, Basic("int")))
	case "defptr":
		def(Ptr(Basic("int")))
	case "defarr":
		def(Array(2, Basic("int")))
	case "iface", "ifaceembed", "ifaceonlyembed":
		m := fmt.Sprintf("M%d", i)
		d := Decl{Name: T, Form: "iface", IMeth: []string{m}}
		impl := Decl{Name: fmt.Sprintf("Impl%d", i), Form: "struct", Fields: []SField{{Name: "Tok", T: Basic("int")}}, Methods: []Method{{Name: m}}}
		if shape == "ifaceonlyembed" {
			// no method of its own: everything comes from two embedded interfaces
			em, gm := fmt.Sprintf("E%d", i), fmt.Sprintf("G%dm", i)
			e := b.addDecl(Decl{Name: fmt.Sprintf("J%d", i), Form: "iface", IMeth: []string{em}})
			g := b.addDecl(Decl{Name: fmt.Sprintf("K%d", i), Form: "iface", IMeth: []string{gm}})
			d.IMeth = nil
			d.Embeds = []int{e, g}
			impl.Methods = []Method{{Name: em}, {Name: gm}}
		}
		if shape == "ifaceembed" {
			em := fmt.Sprintf("E%d", i)
			e := b.addDecl(Decl{Name: fmt.Sprintf("J%d", i), Form: "iface", IMeth: []string{em}})
			d.Embeds = []int{e}
			impl.Methods = append(impl.Methods, Method{Name: em})
		}
		nd.base = b.addDecl(d)
		b.addDecl(impl)
		nd.t = Named(nd.base)
	case "ifacelit":
		m := fmt.Sprintf("M%d", i)
		b.addDecl(Decl{Name: fmt.Sprintf("Impl%d", i), Form: "struct", Fields: []SField{{Name: "Tok", T: Basic("int")}}, Methods: []Method{{Name: m}}})
		nd.t = &Type{K: "ifacelit", Methods: []string{m}}
	default:
		// composites over a fresh struct
		nd.base = b.freshStruct(T)
		x := Named(nd.base)
		switch shape {
		case "slice":
			nd.t = Slice(x)
		case "array":
			nd.t = Array(b.intn(1, 3, "arrlen"), x)
		case "map":
			nd.t = Map(x)
		case "chan":
			nd.t = Chan(0, x)
		case "rchan":
			nd.t = Chan(2, x)
		case "schan":
			nd.t = Chan(1, x)
		case "func":
			nd.t = Func(x)
		case "ptrslice":
			nd.t = Ptr(Slice(x))
		case "sliceptr":
			nd.t = Slice(Ptr(x))
		case "mapptr":
			nd.t = Map(Ptr(x))
		case "slice2":
			nd.t = Slice(Slice(x))
		case "ptrarray":
			nd.t = Ptr(Array(2, x))
		case "funcptr":
			nd.t = Func(Ptr(x))
		case "chanptr":
			nd.t = Chan(0, Ptr(x))
		case "structlit2":
			nd.t = &Type{K: "structlit", Fields: []LitField{{Name: "A", T: Ptr(x)}, {Name: "B", T: Slice(x)}}}
		case "ptrptr":
			nd.t = Ptr(Ptr(x))
		case "structlit":
			nd.t = &Type{K: "structlit", Fields: []LitField{{Name: "A", T: x}}}
		default:
			nd.t = x
		}
	}
	// a field node may provide the pointer-to-field form when its parent is a pointer
	if nd.kind == "field" {
		par := b.nodes[nd.deps[0]]
		if (par.t.K == "ptr" || par.shape == "PS") && !nd.needStruct && len(nd.binders) == 0 && b.pct(40, "fieldptr") {
			nd.fieldPtr = true
			nd.t = Ptr(nd.t)
		}
	}
	// alias spelling
	if nd.t.K != "basic" && b.pct(25, "alias") {
		nd.alias = b.addDecl(Decl{Name: fmt.Sprintf("A%d", i), Form: "alias", Under: nd.t})
	}
}

// spell returns a type term for node i's type, sometimes through its alias.
func (b *wfBuilder) spell(i int) *Type {
	nd := b.nodes[i]
	if nd.alias >= 0 && b.pct(50, "usealias") {
		return Named(nd.alias)
	}
	return nd.t
}

// placeDecls assigns packages to the node's declarations and fills in
// methods and fields.
func (b *wfBuilder) placeDecls(i int) {
	nd := b.nodes[i]
	T := fmt.Sprintf("T%d", i)
	for di := range b.s.Decls {
		d := &b.s.Decls[di]
		switch d.Name {
		case T, fmt.Sprintf("Impl%d", i), fmt.Sprintf("J%d", i), fmt.Sprintf("K%d", i), fmt.Sprintf("A%d", i), fmt.Sprintf("Q%d", i):
			d.Pkg = nd.pkg
		}
	}
	if nd.base < 0 {
		return
	}
	d := &b.s.Decls[nd.base]
	// methods required by binders
	if len(nd.binders) > 0 && d.Form != "iface" {
		isPtr := nd.t.K == "ptr"
		have := map[string]bool{}
		for _, bi := range nd.binders {
			for _, m := range IfaceMethods(b.s, b.nodes[bi].t) {
				if !have[m] {
					have[m] = true
					d.Methods = append(d.Methods, Method{Name: m, PtrRecv: isPtr && b.coin("ptrrecv")})
				}
			}
		}
	}
	if d.Form != "struct" {
		return
	}
	// fields for field kids
	for _, k := range nd.fieldKids {
		kid := b.nodes[k]
		ft := kid.t
		if kid.fieldPtr {
			ft = kid.t.Elem
		}
		if kid.alias >= 0 && !kid.fieldPtr && b.coin("fieldalias") {
			ft = Named(kid.alias)
		}
		d.Fields = append(d.Fields, SField{Name: fmt.Sprintf("G%d", k), T: ft})
	}
	if nd.kind == "struct" {
		// fields for dependencies, plus decoys
		for _, dep := range nd.deps {
			d.Fields = append(d.Fields, SField{Name: fmt.Sprintf("F%d", dep), T: b.spell(dep)})
		}
	}
}

func (b *wfBuilder) makeItem(i int) {
	nd := b.nodes[i]
	it := Item{Pkg: nd.pkg}
	switch nd.kind {
	case "arg":
		return
	case "func":
		it.Kind = "func"
		it.Name = fmt.Sprintf("ProvideT%d", i)
		it.Out = b.spell(i)

		for _, d := range nd.deps {
			it.Params = append(it.Params, b.spell(d))
		}
		pc, pe := 30, 30
		if b.o.MoreErr {
			pc, pe = 55, 55
		}
		if b.o.chain {
			pc, pe = 92, 70
		}
		it.Cleanup = b.pct(pc, "cleanup")
		it.Err = b.pct(pe, "err")
		if k := len(it.Params); k > 0 && !b.o.NoVariadic {
			last := b.nodes[nd.deps[k-1]].t
			if last.K == "slice" && b.pct(60, "variadic") {
				it.Params[k-1] = last // the variadic parameter is spelled ...Elem
				it.Variadic = true
			}
		}
	case "struct":
		it.Kind = "struct"
		it.Out = Named(nd.base)
		d := &b.s.Decls[nd.base]
		hasKids := len(nd.fieldKids) > 0
		mode := b.pick([]string{"names", "names", "star", "legacy"}, "structmode")
		if hasKids && mode != "names" {
			mode = "names"
		}
		switch mode {
		case "star":
			it.Star = true
			// Tok must not be injected: prevent it, in one of the spellings of the tag
			for fi := range d.Fields {
				if d.Fields[fi].Name == "Tok" {
					d.Fields[fi].Tag = b.pick([]string{`wire:"-"`, `json:"tok" wire:"-"`, `wire:"-" json:"tok"`}, "prevtag")
				} else if b.pct(35, "stardecoy") {
					// a tag that looks like the prevent tag but is not: the field is still injected
					d.Fields[fi].Tag = b.pick([]string{`json:"-"`, `wire:""`, `wire:"x"`, `xwire:"-"`, `xwire:"-" json:"-"`, `json:"wire:\"-\""`, `hardwire:"-"`, `wire:"-,"`}, "decoy")
				}
			}
		case "legacy":
			it.Legacy = true
			// the legacy form injects every field: drop the token field
			var fs []SField
			for _, f := range d.Fields {
				if f.Name != "Tok" {
					fs = append(fs, f)
				}
			}
			d.Fields = fs
		default:
			for _, dep := range nd.deps {
				it.Fields = append(it.Fields, fmt.Sprintf("F%d", dep))
			}
			// a decoy tag on a selected field that does not prevent injection
			if len(nd.deps) > 0 && b.pct(30, "decoytag") {
				for fi := range d.Fields {
					if d.Fields[fi].Name == fmt.Sprintf("F%d", nd.deps[0]) {
						d.Fields[fi].Tag = b.pick([]string{`json:"-"`, `wire:""`, `wire:"x"`, `xwire:"-"`}, "decoy")
					}
				}
			}
		}
	case "value":
		it.Kind = "value"
		it.Out = b.spell(i)
		it.Tok = 1000 + i
	case "ivalue":
		it.Kind = "ivalue"
		it.Out = b.spell(i)
		it.Tok = 1000 + i
		it.Conc = b.implOf(i)
	case "bind":
		it.Kind = "bind"
		it.Out = b.spell(i)
		it.Conc = b.spell(nd.deps[0])
	case "field":
		it.Kind = "fields"
		it.Parent = b.spell(nd.deps[0])
		it.Fields = []string{fmt.Sprintf("G%d", i)}
	}
	b.s.Items = append(b.s.Items, it)
	nd.item = len(b.s.Items) - 1
}

// implOf finds the implementing struct declared for interface node i.
func (b *wfBuilder) implOf(i int) *Type {
	name := fmt.Sprintf("Impl%d", i)
	for di := range b.s.Decls {
		if b.s.Decls[di].Name == name {
			if b.pct(30, "ivalueptr") {
				return Ptr(Named(di))
			}
			return Named(di)
		}
	}
	return Basic("int")
}

// closure returns the nodes reachable from root.
func (b *wfBuilder) closure(root int) map[int]bool {
	seen := map[int]bool{}
	var walk func(i int)
	walk = func(i int) {
		if seen[i] {
			return
		}
		seen[i] = true
		for _, d := range b.nodes[i].deps {
			walk(d)
		}
	}
	walk(root)
	return seen
}

// forest element: a group of nodes' items placed in one set.
type wfGroup struct {
	set    int // index into Spec.Sets, -1 for an inline group
	parent int // parent group index, -1 = top level
	items  []int
	kids   []int
	pkg    int
}

func (b *wfBuilder) makeSetsAndInjectors() {
	n := len(b.nodes)
	// roots of the injectors
	roots := []int{0}
	if !b.o.SingleInj {
		extra := b.intn(0, 2, "extrainj")
		for k := 0; k < extra && n > 1; k++ {
			r := b.intn(1, n-1, "injroot")
			if b.nodes[r].kind == "arg" {
				continue
			}
			dup := false
			for _, x := range roots {
				if x == r {
					dup = true
				}
			}
			if !dup {
				roots = append(roots, r)
			}
		}
	}
	needed := map[int]bool{}
	closures := make([]map[int]bool, len(roots))
	for k, r := range roots {
		closures[k] = b.closure(r)
		for i := range closures[k] {
			needed[i] = true
		}
	}
	for i, nd := range b.nodes {
		if !needed[i] {
			nd.extra = true
		}
	}
	// unneeded extras: provider functions over fresh types living in nested sets only
	// (unneeded nodes of the DAG are such extras already; arg-kind ones are dropped)

	// group assignment: each non-arg node joins the top level (-1) or a group.
	ng := b.intn(0, 4, "groups")
	groups := make([]*wfGroup, ng)
	for g := range groups {
		groups[g] = &wfGroup{set: -1, parent: -1, pkg: 0}
		if g > 0 && b.pct(40, "nest") {
			groups[g].parent = b.intn(0, g-1, "parentgroup")
		}
	}
	where := make([]int, n) // group index or -1
	for i, nd := range b.nodes {
		where[i] = -1
		if nd.kind == "arg" {
			continue
		}
		if ng > 0 && (nd.extra || b.pct(65, "ingroup")) {
			where[i] = b.intn(0, ng-1, "group")
		}
		if nd.extra && ng == 0 {
			where[i] = -2 // dropped: an unneeded item may not be a direct Build argument
		}
	}
	// bindings must sit with (or above) the source of their concrete type
	ancestors := func(g int) map[int]bool {
		a := map[int]bool{-1: true}
		for g >= 0 {
			a[g] = true
			g = groups[g].parent
		}
		return a
	}
	for i, nd := range b.nodes {
		if nd.kind != "bind" || where[i] == -2 {
			continue
		}
		j := nd.deps[0]
		if b.nodes[j].kind == "arg" {
			where[i] = -1
			continue
		}
		if where[j] == -2 {
			where[i] = -2
			continue
		}
		if !ancestors(where[j])[where[i]] {
			where[i] = where[j]
		}
	}
	for i := range b.nodes {
		if where[i] >= 0 {
			groups[where[i]].items = append(groups[where[i]].items, i)
		}
	}
	for g, gr := range groups {
		if gr.parent >= 0 {
			groups[gr.parent].kids = append(groups[gr.parent].kids, g)
		}
	}
	// drop empty groups (no items in the whole subtree)
	var size func(g int) int
	size = func(g int) int {
		s := len(groups[g].items)
		for _, k := range groups[g].kids {
			s += size(k)
		}
		return s
	}
	// package of a group: must be able to import everything it mentions
	var minPkg func(g int) int
	minPkg = func(g int) int {
		m := b.nP - 1
		for _, i := range groups[g].items {
			p := b.nodes[i].pkg
			if b.nodes[i].kind == "bind" || b.nodes[i].kind == "field" {
				if q := b.nodes[b.nodes[i].deps[0]].pkg; q < p {
					p = q
				}
			}
			if p < m {
				m = p
			}
		}
		for _, k := range groups[g].kids {
			if p := minPkg(k); p < m {
				m = p
			}
		}
		return m
	}
	// named or inline; create Spec.Sets bottom-up
	var refOf func(g int) (Ref, bool)
	made := map[int]Ref{}
	refOf = func(g int) (Ref, bool) {
		if r, ok := made[g]; ok {
			return r, true
		}
		if size(g) == 0 {
			return Ref{}, false
		}
		gr := groups[g]
		var args []Ref
		for _, i := range gr.items {
			args = append(args, RItem(b.nodes[i].item))
		}
		for _, k := range gr.kids {
			if r, ok := refOf(k); ok {
				args = append(args, r)
			}
		}
		args = b.shuffle(args)
		hi := minPkg(g)
		if gr.parent < 0 {
			// top-level groups are referenced from the injector's package only
		}
		var r Ref
		if b.pct(25, "inline") {
			// an inline set is written where it is used: same visibility as its user
			r = RInline(args)
			gr.pkg = -1
		} else {
			gr.pkg = b.intn(0, hi, "setpkg")
			b.s.Sets = append(b.s.Sets, Set{Pkg: gr.pkg, Name: fmt.Sprintf("Set%d", g), Args: args, AliasOf: -1})
			si := len(b.s.Sets) - 1
			if b.pct(15, "setalias") {
				b.s.Sets = append(b.s.Sets, Set{Pkg: b.intn(0, gr.pkg, "aliaspkg"), Name: fmt.Sprintf("Alias%d", g), AliasOf: si})
				si = len(b.s.Sets) - 1
			}
			r = RSet(si)
		}
		made[g] = r
		return r, true
	}
	// a named set in package p can only hold inline children / named children visible from p.
	// Named children live in packages <= their own minPkg; a parent in a lower-numbered package can import them
	// only if child.pkg >= parent.pkg.  Enforce by construction: parent's package is drawn after the kids',
	// bounded by them.
	// (minPkg(g) already takes the kids' items into account; named kids' own packages are bounded next.)
	var fixPkgs func(g int)
	fixPkgs = func(g int) {
		for _, k := range groups[g].kids {
			fixPkgs(k)
		}
	}
	// Build argument lists
	topGroupOf := func(i int) int {
		g := where[i]
		for g >= 0 && groups[g].parent >= 0 {
			g = groups[g].parent
		}
		return g
	}
	for k, r := range roots {
		cl := closures[k]
		in := Injector{Name: fmt.Sprintf("Inject%d", k), File: 0, Out: b.spell(r), Panic: b.coin("panicform")}
		if k > 0 && b.pct(40, "file2") {
			in.File = 1
		}
		seenTop := map[int]bool{}
		var args []Ref
		var idxs []int
		for i := range cl {
			idxs = append(idxs, i)
		}
		sortInts(idxs)
		for _, i := range idxs {
			nd := b.nodes[i]
			if nd.kind == "arg" {
				in.Params = append(in.Params, Param{Name: fmt.Sprintf("a%d", i), T: b.spell(i)})
				continue
			}
			g := topGroupOf(i)
			if g < 0 {
				args = append(args, RItem(nd.item))
				continue
			}
			if !seenTop[g] {
				seenTop[g] = true
				if rf, ok := refOf(g); ok {
					args = append(args, rf)
				}
			}
		}
		in.Args = b.shuffle(args)
		// extra parameters the result does not depend on (allowed); some implement an
		// interface the injector binds, so that a lookup by assignability would pick them
		if b.pct(25, "extraparams") {
			for _, i := range idxs {
				nd := b.nodes[i]
				if (nd.kind == "bind" || nd.kind == "ivalue") && b.pct(60, "implparam") {
					var ms []Method
					for _, mn := range IfaceMethods(b.s, nd.t) {
						ms = append(ms, Method{Name: mn})
					}
					if len(ms) == 0 {
						continue
					}
					di := b.addDecl(Decl{Pkg: 0, Name: fmt.Sprintf("X%dI%d", k, i), Form: "struct", Fields: []SField{{Name: "Tok", T: Basic("int")}}, Methods: ms})
					in.Params = append([]Param{{Name: fmt.Sprintf("x%d", i), T: Named(di)}}, in.Params...)
					break
				}
			}
			if b.pct(50, "plainextraparam") {
				di := b.addDecl(Decl{Pkg: 0, Name: fmt.Sprintf("X%dP", k), Form: "struct", Fields: []SField{{Name: "Tok", T: Basic("int")}}})
				in.Params = append([]Param{{Name: fmt.Sprintf("xp%d", k), T: Ptr(Named(di))}}, in.Params...)
			}
		}
		// parameter naming style
		switch b.pick([]string{"named", "named", "named", "unnamed", "blank"}, "paramstyle") {
		case "unnamed":
			for pi := range in.Params {
				in.Params[pi].Name = ""
			}
		case "blank":
			for pi := range in.Params {
				in.Params[pi].Name = "_"
			}
		}
		if np := len(in.Params); np > 0 && !b.o.NoVariadic {
			// a slice-typed last parameter may be declared variadic
			last := resolveT(b.s, in.Params[np-1].T)
			if last.K == "slice" && b.pct(50, "injvariadic") {
				in.Params[np-1].T = last
				in.Variadic = true
			}
		}
		b.s.Injectors = append(b.s.Injectors, in)
	}
	// a provider function may live in another package than its result type:
	// only functions that injectors list directly move (a set of another
	// package could not import them back)
	inSet := map[int]bool{}
	var walk func(rs []Ref)
	walk = func(rs []Ref) {
		for _, r := range rs {
			if r.Item >= 0 {
				inSet[r.Item] = true
			}
			if r.IsInline() {
				walk(r.Inline)
			}
		}
	}
	for _, st := range b.s.Sets {
		walk(st.Args)
	}
	for _, in := range b.s.Injectors {
		for _, r := range in.Args {
			if r.IsInline() {
				walk(r.Inline)
			}
		}
	}
	for ii := range b.s.Items {
		it := &b.s.Items[ii]
		if it.Kind == "func" && it.Pkg > 0 && !inSet[ii] && b.pct(40, "provpkg") {
			it.Pkg = b.intn(0, it.Pkg-1, "provpkgidx")
		}
	}
	// the ProdSet/TestSet pattern: a second set that differs from a named set
	// in one provider function, and a second injector built from it
	if !b.o.SingleInj && b.pct(25, "altset") {
		b.addAltSet()
	}
	// named sets' packages: a set may only mention sets it can import
	b.fixSetPackages()
	// injector result flags from the model
	m := NewModel(b.s)
	for k := range b.s.Injectors {
		in := &b.s.Injectors[k]
		in.Cleanup, in.Err = true, true
		v := m.Judge(k)
		needCl, needErr := len(v.ClItems) > 0, len(v.ErrItems) > 0
		in.Cleanup = needCl || b.pct(35, "injcleanup")
		in.Err = needErr || b.pct(35, "injerr")
	}
	b.makePlan()
}

// fixSetPackages lowers the package of every named set until it can import
// every named set and function it mentions.
func (b *wfBuilder) fixSetPackages() {
	s := b.s
	var minRef func(rs []Ref, cur int) int
	minRef = func(rs []Ref, cur int) int {
		for _, r := range rs {
			switch {
			case r.Set >= 0:
				if p := s.Sets[r.Set].Pkg; p < cur {
					cur = p
				}
			case r.IsInline():
				cur = minRef(r.Inline, cur)
			}
		}
		return cur
	}
	for changed := true; changed; {
		changed = false
		for si := range s.Sets {
			st := &s.Sets[si]
			p := st.Pkg
			if st.AliasOf >= 0 {
				if q := s.Sets[st.AliasOf].Pkg; q < p {
					p = q
				}
			} else {
				p = minRef(st.Args, p)
				// inline children may mention items of any package >= p: check items
				p = b.minItemPkg(st.Args, p)
			}
			if p != st.Pkg {
				st.Pkg = p
				changed = true
			}
		}
	}
}

func (b *wfBuilder) minItemPkg(rs []Ref, cur int) int {
	for _, r := range rs {
		switch {
		case r.Item >= 0:
			for i, nd := range b.nodes {
				if nd.item == r.Item {
					p := nd.pkg
					if nd.kind == "bind" || nd.kind == "field" {
						if q := b.nodes[nd.deps[0]].pkg; q < p {
							p = q
						}
					}
					if p < cur {
						cur = p
					}
					_ = i
				}
			}
		case r.IsInline():
			cur = b.minItemPkg(r.Inline, cur)
		}
	}
	return cur
}

func resolveT(s *Spec, t *Type) *Type {
	for t.K == "named" && s.Decls[t.Decl].Form == "alias" {
		t = s.Decls[t.Decl].Under
	}
	return t
}

func (b *wfBuilder) shuffle(rs []Ref) []Ref {
	if len(rs) < 2 {
		return rs
	}
	perm := rapid.Permutation(rs).Draw(b.t, "order")
	return perm
}

func sortInts(a []int) {
	for i := 1; i < len(a); i++ {
		for j := i; j > 0 && a[j-1] > a[j]; j-- {
			a[j-1], a[j] = a[j], a[j-1]
		}
	}
}

// addAltSet clones a named set that an injector lists directly, replacing
// one of its provider functions by a twin (same signature, another function),
// and clones that injector to use the clone.
func (b *wfBuilder) addAltSet() {
	type cand struct{ inj, arg, set, pos int }
	var cs []cand
	for k, in := range b.s.Injectors {
		for a, r := range in.Args {
			if r.Set < 0 || b.s.Sets[r.Set].AliasOf >= 0 {
				continue
			}
			for pos, sr := range b.s.Sets[r.Set].Args {
				if sr.Item >= 0 && b.s.Items[sr.Item].Kind == "func" {
					cs = append(cs, cand{k, a, r.Set, pos})
				}
			}
		}
	}
	if len(cs) == 0 {
		return
	}
	c := cs[b.intn(0, len(cs)-1, "altcand")]
	orig := b.s.Items[b.s.Sets[c.set].Args[c.pos].Item]
	twin := orig
	twin.Name = orig.Name + "Alt"
	twin.Params = append([]*Type(nil), orig.Params...)
	b.s.Items = append(b.s.Items, twin)
	ti := len(b.s.Items) - 1
	st := b.s.Sets[c.set]
	alt := Set{Pkg: st.Pkg, Name: st.Name + "Alt", AliasOf: -1, Args: append([]Ref(nil), st.Args...)}
	alt.Args[c.pos] = RItem(ti)
	b.s.Sets = append(b.s.Sets, alt)
	in := b.s.Injectors[c.inj]
	in.Name += "Alt"
	in.Args = append([]Ref(nil), in.Args...)
	in.Args[c.arg] = RSet(len(b.s.Sets) - 1)
	in.Params = append([]Param(nil), in.Params...)
	b.s.Injectors = append(b.s.Injectors, in)
}

// makePlan fills Spec.Plan: a fault-free run of every injector, one run per
// error-capable provider it needs, and optionally a drawn sequence.
func (b *wfBuilder) makePlan() {
	m := NewModel(b.s)
	var all []Run
	for k := range b.s.Injectors {
		v := m.Judge(k)
		b.s.Plan = append(b.s.Plan, Run{Inj: k, Fault: -1})
		all = append(all, Run{Inj: k, Fault: -1})
		if v.Accept && len(b.s.Injectors[k].Params) > 0 {
			// a second valuation: zero-valued arguments, unless a field is selected from something
			// (a nil pointer argument would be dereferenced)
			safe := true
			for _, key := range v.Needed {
				if v.Set.Map[key].Src.Kind == "field" {
					safe = false
				}
			}
			if safe {
				b.s.Plan = append(b.s.Plan, Run{Inj: k, Fault: -1, Zero: true})
			}
		}
		if !v.Accept || b.o.NoFaults {
			continue
		}
		for _, it := range v.ErrItems {
			b.s.Plan = append(b.s.Plan, Run{Inj: k, Fault: it})
			all = append(all, Run{Inj: k, Fault: it})
		}
	}
	if b.o.Sequences && len(all) > 1 {
		k := b.intn(3, 12, "seqlen")
		for i := 0; i < k; i++ {
			b.s.Plan = append(b.s.Plan, all[b.intn(0, len(all)-1, "seqstep")])
		}
	}
}
