package props

import (
	"encoding/json"
	"fmt"
	"go/ast"
	"go/parser"
	"go/token"
	"strings"
	"time"

	"pgregory.net/rapid"

	. "verif/harness/eng"
)

// specKey hashes a program.
func specKey(s *Spec) string { return s.Hash() }

// wfGate classifies an evaluated well-formed program before a property
// judges it: generator bugs and programs Wire rejected are kept out of the
// judged stream (the latter are C10's business) and counted.
func wfGate(c *Ctx, e *ProgEval) (judge bool) {
	switch e.Obs.Status {
	case "skipped":
		return false
	case "loaderr", "silent":
		c.GenBug(fmt.Sprintf("%s program %s: %s", e.Obs.Status, e.Spec.Hash(), tailStr(e.Obs.Stderr, 1200)))
		return false
	}
	for i, v := range e.Verdicts {
		if !v.Accept {
			c.GenBug(fmt.Sprintf("WF program %s: model rejects injector %d: %+v", e.Spec.Hash(), i, v.Errs))
			return false
		}
		if v.PartialFields {
			c.Excluded("partially used FieldsOf list")
			return false
		}
	}
	return true
}

func tailStr(s string, n int) string {
	if len(s) <= n {
		return s
	}
	return "…" + s[len(s)-n:]
}

// evalWF evaluates a batch of programs through wire, go build and the runner.
func evalWF(c *Ctx) func([]*Spec) []*ProgEval {
	return func(ss []*Spec) []*ProgEval {
		cl := make([]*Spec, len(ss))
		for i, s := range ss {
			cl[i] = s.Clone()
		}
		es := EvalPrograms(c, cl, PipeOpts{Build: true, Exec: true})
		for _, e := range es {
			if e.Obs.Status != "skipped" {
				c.Eval(1)
			}
		}
		return es
	}
}

// ---------------------------------------------------------------------------
// C01

func judgeC01(c *Ctx, e *ProgEval, count bool) *Fail {
	if !wfGate(c, e) {
		return nil
	}
	if e.Obs.Status == "panic" {
		return nil // C20's business
	}
	if !e.Accepted() {
		if count {
			c.Excluded("wire rejected a program the model accepts (judged by C10)")
		}
		return nil
	}
	if count {
		classifyWF(c, e, "C01")
	}
	// (1) every injector has exactly one generated implementation
	fset := token.NewFileSet()
	f, err := parser.ParseFile(fset, "wire_gen.go", e.GenSrc, parser.ParseComments)
	if err != nil {
		return Failf("C01 generated file does not parse", "%v\n%s", err, e.GenSrc)
	}
	n := map[string]int{}
	for _, d := range f.Decls {
		if fd, ok := d.(*ast.FuncDecl); ok && fd.Recv == nil {
			n[fd.Name.Name]++
		}
	}
	for _, in := range e.Spec.Injectors {
		if n[in.Name] != 1 {
			return Failf("C01 injector does not have exactly one generated implementation", "%s is declared %d times\n%s", in.Name, n[in.Name], e.GenSrc)
		}
	}
	// (2) the package builds without the wireinject tag, including the typed
	// function-variable assignments that force signature identity
	if e.BuildErr != "" {
		bad := false
		for _, line := range strings.Split(e.BuildErr, "\n") {
			if strings.Contains(line, "wire_gen.go") || strings.Contains(line, "zz_drive.go") && (strings.Contains(line, "Inject") || strings.Contains(line, "cannot use")) {
				bad = true
			}
		}
		if !bad {
			c.GenBug("rendered program does not compile: " + tailStr(e.BuildErr, 1500))
			return nil
		}
		return Failf("C01 package does not compile with the generated file", "%s\n--- wire_gen.go\n%s", e.BuildErr, e.GenSrc)
	}
	return nil
}

// classifyWF feeds the evidence histogram and the non-trivial counter.
func classifyWF(c *Ctx, e *ProgEval, prop string) {
	s := e.Spec
	kinds := map[string]bool{}
	for _, it := range s.Items {
		kinds[it.Kind] = true
	}
	errPath, variadic := false, false
	for _, it := range s.Items {
		if it.Kind == "func" && it.Err {
			errPath = true
		}
		if it.Variadic {
			variadic = true
		}
	}
	for _, in := range s.Injectors {
		if in.Variadic {
			variadic = true
		}
		rt := in.Out
		for rt.K == "named" && s.Decls[rt.Decl].Form == "alias" {
			rt = s.Decls[rt.Decl].Under
		}
		k := rt.K
		if rt.K == "named" {
			k = "named-" + s.Decls[rt.Decl].Form
		}
		c.Class(fmt.Sprintf("result=%s/errpath=%v", k, in.Err && errPath))
	}
	nfunc := 0
	for _, v := range e.Verdicts {
		nfunc += len(v.FuncItems)
	}
	if nfunc >= 1 && (errPath || len(s.Pkgs) >= 2 || variadic || kinds["value"] || kinds["struct"] || kinds["fields"] || kinds["bind"]) {
		c.Nontrivial(s.Hash())
	}
	for k := range kinds {
		c.Class("uses-" + k)
	}
	if variadic {
		c.Class("variadic")
	}
	c.Class(fmt.Sprintf("pkgs=%d", len(s.Pkgs)))
	c.Class(fmt.Sprintf("injectors=%d", len(s.Injectors)))
}

func sampleWF(c *Ctx, e *ProgEval) {
	if !e.Accepted() {
		return
	}
	c.Sample(map[string]interface{}{"program": e.Spec, "wire": "accepted", "built": e.Built, "sections": lenSections(e)})
}

func lenSections(e *ProgEval) int {
	if e.Run == nil {
		return 0
	}
	return len(e.Run.Sections)
}

func runBatchedWF(c *Ctx, name string, checks int, o WFOpts, judge func(c *Ctx, e *ProgEval, count bool) *Fail) {
	first := true
	n := 0
	Batched(c, name, checks, time.Duration(c.Pick(90, 300))*time.Second,
		func(t *rapid.T) *Spec { return GenWF(o).Draw(t, "program") },
		specKey,
		evalWF(c),
		func(s *Spec, e *ProgEval) *Fail {
			f := judge(c, e, first)
			n++
			if n%40 == 1 {
				sampleWF(c, e)
			}
			return f
		})
	_ = first
}

func replaySpec(c *Ctx, raw json.RawMessage, judge func(c *Ctx, e *ProgEval, count bool) *Fail) *Fail {
	var s Spec
	if err := json.Unmarshal(raw, &s); err != nil {
		c.Inconclusive("bad replay case: " + err.Error())
		return nil
	}
	es := EvalPrograms(c, []*Spec{&s}, PipeOpts{Build: true, Exec: true})
	for _, v := range es[0].Verdicts {
		if !v.Accept {
			// a saved case the reference model rejects (e.g. the witness of a
			// repaired defect): Wire must reject it too
			return judgeVerdict(c, es[0], c.Prop, "")
		}
	}
	return judge(c, es[0], false)
}

// runGate handles a program whose generated code could not be observed: a
// program that kills or hangs the process running it violates the runtime
// properties (the provider stubs cannot do that); other runner trouble is
// infrastructure.
func runGate(c *Ctx, e *ProgEval, prop string) *Fail {
	if !e.Built || e.Run != nil || e.RunErr == "" {
		return nil
	}
	if e.RunCrash {
		return Failf(prop+" generated code killed or hung the process calling it", "%s\n--- wire_gen.go\n%s", e.RunErr, e.GenSrc)
	}
	c.Inconclusive("runner: " + e.RunErr)
	return nil
}

// ---------------------------------------------------------------------------
// C02

func judgeC02(c *Ctx, e *ProgEval, count bool) *Fail {
	if !wfGate(c, e) || !e.Accepted() || e.Obs.Status == "panic" {
		return nil
	}
	if f := runGate(c, e, "C02"); f != nil {
		return f
	}
	if !e.Built || e.Run == nil {
		return nil // compile problems are C01's business
	}
	if e.Run.Panic != "" {
		return Failf("C02 generated injector panicked", "%s", e.Run.Panic)
	}
	m := NewModel(e.Spec)
	refs := Refs(e.Run)
	nontriv := false
	for ri, run := range e.Spec.Plan {
		if run.Fault >= 0 {
			continue
		}
		sec := e.Section(fmt.Sprintf("run%d", ri))
		if sec == nil {
			return Failf("C02 driver section missing", "run%d", ri)
		}
		v := e.Verdicts[run.Inj]
		if errs := CheckWiring(m, run.Inj, v, sec, refs); len(errs) > 0 {
			return Failf("C02 wiring differs from the designated sources", "injector %s: %s\nevents: %s\n--- wire_gen.go\n%s", e.Spec.Injectors[run.Inj].Name, strings.Join(errs, "\n"), sec.Summary(), e.GenSrc)
		}
		if len(v.Needed) >= 3 {
			shared := false
			cnt := map[string]int{}
			for _, k := range v.Needed {
				for _, d := range m.Deps(v.Set.Map[k].Src) {
					cnt[d]++
					if cnt[d] > 1 {
						shared = true
					}
				}
				switch v.Set.Map[k].Src.Kind {
				case "bind", "field", "struct":
					shared = true
				}
			}
			if shared {
				nontriv = true
			}
		}
	}
	if count {
		classifyWF(c, e, "C02")
	}
	if nontriv {
		c.Nontrivial(e.Spec.Hash())
	}
	return nil
}

// ---------------------------------------------------------------------------
// C03

func judgeC03(c *Ctx, e *ProgEval, count bool) *Fail {
	if !wfGate(c, e) || !e.Accepted() || e.Obs.Status == "panic" {
		return nil
	}
	if f := runGate(c, e, "C03"); f != nil {
		return f
	}
	if !e.Built || e.Run == nil {
		return nil
	}
	m := NewModel(e.Spec)
	shape := map[string]string{}
	nFault := 0
	for ri, run := range e.Spec.Plan {
		sec := e.Section(fmt.Sprintf("run%d", ri))
		if sec == nil {
			return Failf("C03 driver section missing", "run%d", ri)
		}
		v := e.Verdicts[run.Inj]
		var errs []string
		if run.Fault >= 0 {
			errs = CheckFault(m, run.Inj, v, sec)
			nFault++
			c.Eval(0)
		} else {
			// successes interleaved with failures must be complete, correct runs
			errs = CheckWiring(m, run.Inj, v, sec, Refs(e.Run))
			errs = append(errs, CheckCleanup(m, run.Inj, v, sec)...)
		}
		if len(errs) > 0 {
			return Failf("C03 failure handling differs from the contract", "injector %s, failing provider %q (run %d of the plan): %s\nevents: %s\n--- wire_gen.go\n%s",
				e.Spec.Injectors[run.Inj].Name, sec.Fault, ri, strings.Join(errs, "\n"), sec.Summary(), e.GenSrc)
		}
		// history invariant: the same (injector, fault) always produces the same event shape
		key := fmt.Sprintf("%d/%d", run.Inj, run.Fault)
		sh := sec.Summary()
		if prev, ok := shape[key]; ok && prev != sh {
			return Failf("C03 an earlier call changed the behaviour of a later call", "injector %s fault %q: first %s, later %s", e.Spec.Injectors[run.Inj].Name, sec.Fault, prev, sh)
		}
		shape[key] = sh
	}
	if count {
		classifyWF(c, e, "C03")
		c.Class(fmt.Sprintf("faulted-calls=%d", minInt(nFault, 8)))
	}
	for _, v := range e.Verdicts {
		if len(v.ErrItems) >= 2 && len(v.ClItems) >= 1 {
			c.Nontrivial(e.Spec.Hash())
		}
	}
	c.Res.Notes["faulted-injector-calls"] = fmt.Sprint(atoiNote(c.Res.Notes["faulted-injector-calls"]) + nFault)
	return nil
}

func minInt(a, b int) int {
	if a < b {
		return a
	}
	return b
}

func atoiNote(s string) int {
	n := 0
	fmt.Sscan(s, &n)
	return n
}

// ---------------------------------------------------------------------------
// C04

func judgeC04(c *Ctx, e *ProgEval, count bool) *Fail {
	if !wfGate(c, e) || !e.Accepted() || e.Obs.Status == "panic" {
		return nil
	}
	if f := runGate(c, e, "C04"); f != nil {
		return f
	}
	if !e.Built || e.Run == nil {
		return nil
	}
	m := NewModel(e.Spec)
	for ri, run := range e.Spec.Plan {
		if run.Fault >= 0 {
			continue
		}
		sec := e.Section(fmt.Sprintf("run%d", ri))
		if sec == nil {
			return Failf("C04 driver section missing", "run%d", ri)
		}
		v := e.Verdicts[run.Inj]
		if errs := CheckCleanup(m, run.Inj, v, sec); len(errs) > 0 {
			return Failf("C04 aggregated cleanup differs from the contract", "injector %s: %s\nevents: %s\n--- wire_gen.go\n%s",
				e.Spec.Injectors[run.Inj].Name, strings.Join(errs, "\n"), sec.Summary(), e.GenSrc)
		}
		in := &e.Spec.Injectors[run.Inj]
		if in.Cleanup {
			c.Class(fmt.Sprintf("cleanup-providers=%d", minInt(len(v.ClItems), 6)))
			if len(v.ClItems) >= 3 {
				// not on a single chain: some pair without a dependency either way
				for _, a := range v.ClItems {
					for _, b := range v.ClItems {
						if a < b && !mDepends(m, v, a, b) && !mDepends(m, v, b, a) {
							c.Nontrivial(e.Spec.Hash())
						}
					}
				}
			}
		}
	}
	if count {
		classifyWF(c, e, "C04")
	}
	return nil
}

func mDepends(m *Model, v *Verdict, a, b int) bool { return m.DependsOn(v, a, b) }

func wfProperty(id, level, rule string, o func(c *Ctx) WFOpts, checks func(c *Ctx) int, judge func(c *Ctx, e *ProgEval, count bool) *Fail, assumptions []string) {
	Register(&Property{
		ID: id, Level: level, Rule: rule, Assumptions: assumptions,
		Shards: func(tier string) int {
			if tier == "thorough" {
				return 12
			}
			return 8
		},
		Timeout: func(tier string) time.Duration {
			if tier == "thorough" {
				return 120 * time.Minute
			}
			return 25 * time.Minute
		},
		Run: func(c *Ctx) {
			runBatchedWF(c, id, checks(c), o(c), judge)
		},
		ReplayCase: func(c *Ctx, kind string, raw json.RawMessage) *Fail {
			return replaySpec(c, raw, judge)
		},
	})
}

var wfAssume = []string{
	"the reference model (harness/eng/model.go) restates the documented Wire semantics; every generated program is re-checked by it and by the Go type checker",
	"go build and the Go runtime are trusted; provider instrumentation (trace package) records calls, arguments and results faithfully",
}

func init() {
	wfProperty("C01", "exploration",
		"rapid-generated well-formed Wire programs (random DAG of provided types over 1-4 packages; provider functions with cleanup/error/variadic, wire.Struct incl. \"*\", legacy literals and prevent tags, values, interface values, bindings, field providers incl. pointer-to-field, nested named/inline/aliased sets, 1-3 injectors, ~30 type shapes) are run through `wire gen`; for every accepted program the generated file is parsed (each injector exactly once) and the package is compiled without the wireinject tag together with a driver holding `var _ func(P...) (R...) = InjectK` for every injector. Non-trivial = accepted, >=1 provider call and one of {error path, >=2 packages, variadic, value, struct/field/binding step}; distinct by program hash.",
		func(c *Ctx) WFOpts { return WFOpts{Names: 30} },
		func(c *Ctx) int { return c.Pick(300, 1500) }, judgeC01, wfAssume)
	wfProperty("C02", "exploration",
		"same generator as C01; accepted programs are compiled and executed with instrumented providers; for every fault-free injector call the reference model's designated source of every provider parameter, struct field, selected field and of the result is evaluated over the observed trace (value trees with pointer identity classes), and the set of providers that ran must equal the needed set, each exactly once. Non-trivial = injector with >=3 needed types and a shared dependency, binding, field or struct step.",
		func(c *Ctx) WFOpts { return WFOpts{NoFaults: true, Names: 30} },
		func(c *Ctx) int { return c.Pick(300, 1500) }, judgeC02, wfAssume)
	wfProperty("C03", "fault_enumeration",
		"programs from the WF generator biased to cleanup/error providers; for every injector EVERY error-capable provider in its needed set is failed in turn (enumerated), followed by a rapid-drawn sequence of 3-12 further calls alternating failures and successes; oracle per faulted call: no call after the failing one, cleanups of the already succeeded cleanup providers exactly once in reverse acquisition order, the failing provider's own cleanup never runs, zero result, nil cleanup, the identical error value; successes in the sequence must be complete correct runs and the same (injector, fault) must always produce the same event shape. evaluations = programs; faulted injector calls are reported in notes. Non-trivial = injector with >=2 error-capable providers and >=1 cleanup provider.",
		func(c *Ctx) WFOpts { return WFOpts{MoreErr: true, Sequences: true, Names: 30, ChainPct: 12} },
		func(c *Ctx) int { return c.Pick(300, 1500) }, judgeC03, wfAssume)
	wfProperty("C04", "exploration",
		"programs from the WF generator biased to cleanup providers; on every fault-free call of an injector declaring a cleanup result: returned function non-nil (also with zero cleanup providers), no provider cleanup before the caller's invocation, afterwards exactly the cleanups of the cleanup providers that ran, once each, in the exact reverse of the observed call order, and (independently) before the cleanup of any transitive dependency. Non-trivial = >=3 cleanup providers not on a single dependency chain.",
		func(c *Ctx) WFOpts { return WFOpts{MoreErr: true, NoFaults: true, Names: 30, ChainPct: 12} },
		func(c *Ctx) int { return c.Pick(300, 1500) }, judgeC04, wfAssume)
}

// ---------------------------------------------------------------------------
// C10 (first part): every well-formed program is accepted.

func judgeC10Accept(c *Ctx, e *ProgEval, count bool) *Fail {
	if !wfGate(c, e) || e.Obs.Status == "panic" {
		return nil
	}
	if !e.Accepted() {
		return Failf("C10 well-formed program rejected", "diagnostics:\n%s\nstderr: %s", e.Obs.DiagText(), tailStr(e.Obs.Stderr, 1500))
	}
	return nil
}

// ---------------------------------------------------------------------------
// C14: adversarial naming never changes behaviour.

func judgeC14(c *Ctx, e *ProgEval, count bool) *Fail {
	if !wfGate(c, e) || e.Obs.Status == "panic" {
		return nil
	}
	if !e.Accepted() {
		return Failf("C14 renamed well-formed program rejected", "diagnostics:\n%s", e.Obs.DiagText())
	}
	for _, j := range []func(*Ctx, *ProgEval, bool) *Fail{judgeC01, judgeC02, judgeC03, judgeC04} {
		if f := j(c, e, false); f != nil {
			f.Kind = "C14 under adversarial names: " + f.Kind
			return f
		}
	}
	if count {
		classifyWF(c, e, "C14")
		c.Nontrivial(e.Spec.Hash())
		if e.Spec.Extra != "" {
			c.Class("package-level err/cleanup/helper names declared")
		}
		dup := map[string]int{}
		for _, p := range e.Spec.Pkgs {
			dup[p.Name]++
		}
		for _, k := range dup {
			if k > 1 {
				c.Class("same package name in two directories")
			}
		}
	}
	return nil
}

func init() {
	wfProperty("C14", "exploration",
		"WF programs (biased to error+cleanup paths, several packages and injectors) passed through the naming layer: package names from an adversarial pool (err, err2, cleanup, context, fmt, names equal to the unexported form of a type name, the same name in two directories, directory != package name, non-ASCII), import aliases, type names (Err, Cleanup, Error, String, keywords after case folding such as Type/Func/Select/Range, Foo/Foo2/Foo_2, unexported err/cleanup in the injector's package), provider, set and injector names, parameter names (err, cleanup, error, string, int, nil, true, len, make, any, blank, missing), plus package-level declarations named err, err2, cleanup, cleanup2, _wire<T>Value and the locals Wire would derive from type names. Oracle (metamorphic, through the name-independent reference model): the renamed program is accepted, compiles (C01 oracle incl. signature identity) and its runtime trace keyed by logical provider ids satisfies the wiring, failure (every error-capable provider failed in turn; identical error value) and cleanup oracles of C02-C04, i.e. behaves exactly as its canonically named twin. Every renamed program is non-trivial; distinct by program hash.",
		func(c *Ctx) WFOpts { return WFOpts{MoreErr: true, Names: 100} },
		func(c *Ctx) int { return c.Pick(300, 1500) }, judgeC14, wfAssume)
}
