package props

import (
	"fmt"
	"os"
	"path/filepath"
	"sort"
	"strings"
	"time"

	. "verif/harness/eng"
)

// cliWorld is a small multi-package module on disk against which sequences of
// wire commands are run (properties C17 and C18).

type cliPkg struct {
	Name    string `json:"name"`    // directory and package name
	Kind    string `json:"kind"`    // ok, fail-missing, fail-unused, fail-cycle, fail-multi, fail-sig, noinj, noinj-badset
	Variant int    `json:"variant"` // changes the generated content (and its length)
	Tagged  bool   `json:"tagged"`  // has an extra injector file guarded by the build tag "extra"
	// LineDir: defs.go starts with a //line directive naming a file in another
	// directory (as generated parsers do).
	LineDir bool `json:"linedir,omitempty"`
	// Shared: a generating package has one more injector, built from the
	// provider set of the module's package "shared" (whose content has
	// variants of its own).
	Shared bool `json:"shared,omitempty"`
	// TagBroken: the tag-guarded injector file (see Tagged) holds an injector
	// with a missing provider, so the package fails exactly under -tags extra.
	TagBroken bool `json:"tagbroken,omitempty"`
}

// sources returns the files of the package (without any wire_gen.go).
func (p cliPkg) sources() map[string]string {
	f := map[string]string{}
	var d strings.Builder
	fmt.Fprintf(&d, "package %s\n\n", p.Name)
	n := p.Variant%4 + 1
	for i := 0; i < n; i++ {
		fmt.Fprintf(&d, "type T%d struct{ V int }\n\nfunc NewT%d() *T%d { return &T%d{V: %d} }\n\n", i, i, i, i, p.Variant*10+i)
	}
	d.WriteString("type Top struct{ Parts []int }\n\n")
	var ps, as []string
	for i := 0; i < n; i++ {
		ps = append(ps, fmt.Sprintf("t%d *T%d", i, i))
		as = append(as, fmt.Sprintf("t%d.V", i))
	}
	fmt.Fprintf(&d, "func NewTop(%s) *Top { return &Top{Parts: []int{%s}} }\n", strings.Join(ps, ", "), strings.Join(as, ", "))
	f["defs.go"] = d.String()
	if p.LineDir {
		f["defs.go"] = "//line ../linedir/gram.y:1\n" + d.String()
	}
	var provs []string
	for i := 0; i < n; i++ {
		provs = append(provs, fmt.Sprintf("NewT%d", i))
	}
	inj := func(body string) string {
		return fmt.Sprintf("//go:build wireinject\n\npackage %s\n\nimport \"github.com/google/wire\"\n\n%s", p.Name, body)
	}
	all := strings.Join(append(provs, "NewTop"), ", ")
	switch p.Kind {
	case "ok":
		body := fmt.Sprintf("func InitTop() *Top {\n\twire.Build(%s)\n\treturn nil\n}\n", all)
		if p.Variant%3 == 1 {
			body += "\nfunc InitT0() *T0 {\n\twire.Build(NewT0)\n\treturn nil\n}\n"
		}
		if p.Variant%5 == 2 {
			body += "\nvar Greeting = wire.NewSet(wire.Value(\"hello\"))\n\nfunc InitGreeting() string {\n\twire.Build(Greeting)\n\treturn \"\"\n}\n"
		}
		f["wire.go"] = inj(body)
	case "fail-missing":
		f["wire.go"] = inj("func InitTop() *Top {\n\twire.Build(NewTop)\n\treturn nil\n}\n")
	case "fail-unused":
		f["wire.go"] = inj(fmt.Sprintf("func InitT0() *T0 {\n\twire.Build(%s)\n\treturn nil\n}\n", all))
	case "fail-cycle":
		f["defs2.go"] = fmt.Sprintf("package %s\n\ntype A struct{}\ntype B struct{}\n\nfunc NewA(*B) *A { return nil }\nfunc NewB(*A) *B { return nil }\n", p.Name)
		f["wire.go"] = inj("func InitA() *A {\n\twire.Build(NewA, NewB)\n\treturn nil\n}\n")
	case "fail-multi":
		f["wire.go"] = inj("func InitT0() *T0 {\n\twire.Build(NewT0, NewT0)\n\treturn nil\n}\n")
	case "fail-sig":
		f["defs2.go"] = fmt.Sprintf("package %s\n\nfunc Bad() (*T0, int) { return nil, 0 }\n", p.Name)
		f["wire.go"] = inj("func InitT0() *T0 {\n\twire.Build(Bad)\n\treturn nil\n}\n")
	case "fail-partial":
		// one injector fine, one broken: the package as a whole fails
		f["wire.go"] = inj(fmt.Sprintf("func InitTop() *Top {\n\twire.Build(%s)\n\treturn nil\n}\n\nfunc InitBroken() *Top {\n\twire.Build(NewTop)\n\treturn nil\n}\n", all))
	case "noinj":
		// nothing
	case "noinj-blank":
		// no injectors, but a blank import in one of its files
		f["side.go"] = fmt.Sprintf("package %s\n\nimport _ \"%s/blank\"\n", p.Name, ModPath)
	case "noinj-badset":
		f["sets.go"] = fmt.Sprintf("package %s\n\nimport \"github.com/google/wire\"\n\nvar Dup = wire.NewSet(NewT0, NewT0)\n", p.Name)
	}
	if p.Shared && p.Kind == "ok" {
		f["useshared.go"] = fmt.Sprintf("package %s\n\nimport \"%s/shared\"\n\ntype US struct{ N int }\n\nfunc NewUS(t *shared.Thing) *US { return &US{N: t.N} }\n", p.Name, ModPath)
		f["wire_shared.go"] = fmt.Sprintf("//go:build wireinject\n\npackage %s\n\nimport (\n\t\"github.com/google/wire\"\n\n\t\"%s/shared\"\n)\n\nfunc InitUS() *US {\n\twire.Build(shared.Set, NewUS)\n\treturn nil\n}\n", p.Name, ModPath)
	}
	if p.Tagged && (p.Kind == "ok") {
		build := "NewT0"
		res := "*T0"
		if p.TagBroken {
			build, res = "NewTop", "*Top" // NewTop's inputs have no provider here
		}
		f["wire_extra.go"] = fmt.Sprintf("//go:build wireinject && extra\n\npackage %s\n\nimport \"github.com/google/wire\"\n\nfunc InitExtra() %s {\n\twire.Build(%s)\n\treturn nil\n}\n", p.Name, res, build)
	}
	return f
}

// The verdicts depend on the build tags of the invocation: a package whose
// tag-guarded injector file is broken fails only under that tag.
func (p cliPkg) brokenUnder(tags string) bool {
	return p.Kind == "ok" && p.Tagged && p.TagBroken && hasTag(tags, "extra")
}
// hasTag reports whether the -tags value (comma- or space-separated) names tag.
func hasTag(tags, tag string) bool {
	for _, t := range strings.FieldsFunc(tags, func(r rune) bool { return r == ',' || r == ' ' }) {
		if t == tag {
			return true
		}
	}
	return false
}

func (p cliPkg) failsGen(tags string) bool {
	return strings.HasPrefix(p.Kind, "fail-") || p.brokenUnder(tags)
}
func (p cliPkg) failsCheck(tags string) bool { return p.failsGen(tags) || p.Kind == "noinj-badset" }
func (p cliPkg) generates(tags string) bool  { return p.Kind == "ok" && !p.brokenUnder(tags) }

// cliOpts are the command-line options of one invocation.
type cliOpts struct {
	Header string `json:"header"` // "", valid, unreadable
	Prefix string `json:"prefix"`
	Tags   string `json:"tags"`
}

func (o cliOpts) key() string { return o.Header + "|" + o.Prefix + "|" + o.Tags }

// flags renders the options for a command.
func (o cliOpts) flags(cmd string, root string) []string {
	var fl []string
	if cmd == "gen" || cmd == "default" || cmd == "diff" {
		switch o.Header {
		case "valid":
			fl = append(fl, "-header_file", filepath.Join(root, "header.txt"))
		case "unreadable":
			fl = append(fl, "-header_file", filepath.Join(root, "no-such-header.txt"))
		case "invalid":
			fl = append(fl, "-header_file", filepath.Join(root, "badheader.txt"))
		}
	}
	if (cmd == "gen" || cmd == "default") && o.Prefix != "" {
		fl = append(fl, "-output_file_prefix", o.Prefix)
	}
	if o.Tags != "" {
		fl = append(fl, "-tags", o.Tags)
	}
	return fl
}

type cliWorld struct {
	c   *Ctx
	dir string
	// sharedVar is the current variant of the package "shared".
	sharedVar int
	pkgs      []cliPkg
	fresh     map[string]string // pkgname|variant|kind|tagged|optskey -> expected content
}

// sharedSource is the package "shared" in variant v.
func sharedSource(v int) string {
	return fmt.Sprintf("package shared\n\nimport \"github.com/google/wire\"\n\ntype Thing struct{ N int }\n\nfunc NewThingA() *Thing { return &Thing{N: 1} }\n\nfunc NewThingB() *Thing { return &Thing{N: 2} }\n\nfunc NewThingC() *Thing { return &Thing{N: 3} }\n\nvar Set = wire.NewSet(NewThing%c)\n", 'A'+rune(((v%3)+3)%3))
}

func (w *cliWorld) writeShared(dir string) error {
	return WriteTree(dir, map[string]string{"shared/shared.go": sharedSource(w.sharedVar)})
}

func newCLIWorld(c *Ctx, pkgs []cliPkg, sharedVar int) (*cliWorld, error) {
	w := &cliWorld{c: c, dir: c.NewWorkDir("cli"), pkgs: pkgs, fresh: map[string]string{}, sharedVar: sharedVar}
	if err := w.writeSkeleton(w.dir); err != nil {
		return nil, err
	}
	for _, p := range pkgs {
		if err := w.writePkg(w.dir, p); err != nil {
			return nil, err
		}
	}
	return w, nil
}

func (w *cliWorld) remove() { os.RemoveAll(w.dir) }

func (w *cliWorld) writeSkeleton(dir string) error {
	marker, err := os.ReadFile(filepath.Join(RepoDir(), "wire.go"))
	if err != nil {
		return err
	}
	return WriteTree(dir, map[string]string{
		// (the "// indirect" mark is stale on purpose: loading packages must not tidy the file)
		"go.mod":          "module " + ModPath + "\n\ngo 1.21\n\nrequire github.com/google/wire v0.0.0 // indirect\n\nreplace github.com/google/wire => ./wiremod\n",
		"wiremod/go.mod":  "module github.com/google/wire\n\ngo 1.21\n",
		"wiremod/wire.go": string(marker),
		"header.txt":      "// Copyright header line 1\n// line 2\n\n",
		"badheader.txt":   "Copyright (c) Example Corp. This line is not a Go comment.\n\n",
		"blank/blank.go":  "package blank\n",
		"README.txt":      "not a go file\n",
		// a directory that only holds a test: ./... matches it, there is nothing to generate
		"testonly/x_test.go": "package testonly\n\nimport \"testing\"\n\nfunc TestNothing(t *testing.T) {}\n",
		"linedir/gram.y":     "% not Go: the file a //line directive points to\n",
		"shared/shared.go":   sharedSource(w.sharedVar),
	})
}

// writePkg (re)writes the sources of a package, leaving any output file alone.
func (w *cliWorld) writePkg(dir string, p cliPkg) error {
	pd := filepath.Join(dir, p.Name)
	os.MkdirAll(pd, 0o777)
	// remove old sources (everything except *wire_gen.go)
	ents, _ := os.ReadDir(pd)
	for _, e := range ents {
		if !strings.HasSuffix(e.Name(), "wire_gen.go") {
			os.Remove(filepath.Join(pd, e.Name()))
		}
	}
	m := map[string]string{}
	for k, v := range p.sources() {
		m[filepath.Join(p.Name, k)] = v
	}
	return WriteTree(dir, m)
}

func (w *cliWorld) run(cmd string, o cliOpts, patterns ...string) CmdResult {
	args := []string{}
	if cmd != "default" {
		args = append(args, cmd)
	}
	args = append(args, o.flags(cmd, w.dir)...)
	args = append(args, patterns...)
	return w.c.Env.Wire(w.dir, 3*time.Minute, nil, args...)
}

// freshContent returns what an isolated generation of package p on a pristine
// checkout writes under the given options ("" if it generates nothing).
func (w *cliWorld) freshContent(p cliPkg, o cliOpts) (string, error) {
	if !p.generates(o.Tags) || o.Header == "unreadable" || o.Header == "invalid" {
		return "", nil
	}
	key := fmt.Sprintf("%s|%d|%s|%v|%s|%v|%v", p.Name, p.Variant, p.Kind, p.Tagged, cliOpts{Header: o.Header, Tags: o.Tags}.key(), p.LineDir, p.TagBroken)
	if p.Shared {
		key += fmt.Sprintf("|shared%d", ((w.sharedVar%3)+3)%3)
	}
	if v, ok := w.fresh[key]; ok {
		return v, nil
	}
	dir := w.c.NewWorkDir("fresh")
	defer os.RemoveAll(dir)
	if err := w.writeSkeleton(dir); err != nil {
		return "", err
	}
	if err := w.writePkg(dir, p); err != nil {
		return "", err
	}
	args := append([]string{"gen"}, cliOpts{Header: o.Header, Tags: o.Tags}.flags("gen", dir)...)
	args = append(args, "./"+p.Name)
	r := w.c.Env.Wire(dir, 3*time.Minute, nil, args...)
	if r.Exit != 0 {
		return "", fmt.Errorf("reference generation of %s failed: %s", p.Name, r.Stderr)
	}
	b, err := os.ReadFile(filepath.Join(dir, p.Name, "wire_gen.go"))
	if err != nil {
		return "", err
	}
	w.fresh[key] = string(b)
	return string(b), nil
}

// snapshot hashes the module tree.
func (w *cliWorld) snapshot() map[string]string {
	s, _ := Snapshot(w.dir)
	return s
}

// outPath is the path (relative to the module root) of a package's output file.
func outPath(p cliPkg, prefix string) string { return filepath.Join(p.Name, prefix+"wire_gen.go") }

func sortedNames(pkgs []cliPkg) []string {
	var out []string
	for _, p := range pkgs {
		out = append(out, p.Name)
	}
	sort.Strings(out)
	return out
}
