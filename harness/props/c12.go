package props

import (
	"fmt"
	"strings"

	"pgregory.net/rapid"

	. "verif/harness/eng"
)

// C12: struct providers and field providers touch exactly the named fields.
//
// The generator builds small programs around one struct type S: fields with
// exported/unexported/case-twin/embedded names and assorted tags, a subset (or
// "*") selected by wire.Struct, or fields selected by wire.FieldsOf from a
// provided S or *S and consumed in value and pointer form in drawn order.

var c12Tags = []string{"", "", "", `wire:"-"`, `json:"x" wire:"-"`, `wire:"-" json:"x"`, `json:"-"`, `wire:"x"`, `wire:""`, `xwire:"-"`, `json:"wire:\"-\""`}

func genC12() *rapid.Generator[*Spec] {
	return rapid.Custom(func(t *rapid.T) *Spec {
		s := &Spec{ImportAlias: map[int]string{}}
		x := &mutCtx{t: t, s: s}
		s.Pkgs = []Pkg{{Dir: "", Name: "app"}}
		spkg := 0
		if x.pct(35, "otherpkg") {
			s.Pkgs = append(s.Pkgs, Pkg{Dir: "lib", Name: "lib"})
			spkg = 1
		}
		nf := x.intn(1, 5, "nfields")
		// field types: fresh named types of assorted shapes
		var ftypes []*Type
		usedAny := false
		for i := 0; i < nf; i++ {
			name := fmt.Sprintf("F%dT", i)
			switch x.pick([]string{"struct", "struct", "defint", "defstr", "ptr", "slice", "defslice", "iface", "emptyiface", "emptyiface"}, "ftype") {
			case "emptyiface":
				// interface{} itself (once) or a defined empty interface: *F is assignable to F
				if !usedAny && x.pct(50, "anyitself") {
					usedAny = true
					ftypes = append(ftypes, &Type{K: "ifacelit"})
				} else {
					s.Decls = append(s.Decls, Decl{Pkg: spkg, Name: name, Form: "iface"})
					ftypes = append(ftypes, Named(len(s.Decls)-1))
				}
			case "struct":
				ftypes = append(ftypes, Named(addFreshStruct(s, spkg, name)))
			case "defint":
				s.Decls = append(s.Decls, Decl{Pkg: spkg, Name: name, Form: "def", Under: Basic("int")})
				ftypes = append(ftypes, Named(len(s.Decls)-1))
			case "defstr":
				s.Decls = append(s.Decls, Decl{Pkg: spkg, Name: name, Form: "def", Under: Basic("string")})
				ftypes = append(ftypes, Named(len(s.Decls)-1))
			case "ptr":
				ftypes = append(ftypes, Ptr(Named(addFreshStruct(s, spkg, name))))
			case "slice":
				ftypes = append(ftypes, Slice(Named(addFreshStruct(s, spkg, name))))
			case "defslice":
				s.Decls = append(s.Decls, Decl{Pkg: spkg, Name: name, Form: "def", Under: Slice(Basic("int"))})
				ftypes = append(ftypes, Named(len(s.Decls)-1))
			case "iface":
				mn := fmt.Sprintf("M%d", i)
				s.Decls = append(s.Decls, Decl{Pkg: spkg, Name: name, Form: "iface", IMeth: []string{mn}})
				ftypes = append(ftypes, Named(len(s.Decls)-1))
				s.Decls = append(s.Decls, Decl{Pkg: spkg, Name: fmt.Sprintf("Impl%d", i), Form: "struct", Fields: []SField{{Name: "Tok", T: Basic("int")}}, Methods: []Method{{Name: mn}}})
			}
		}
		// field names
		var fields []SField
		used := map[string]bool{}
		for i := 0; i < nf; i++ {
			var name string
			style := x.pick([]string{"exported", "exported", "exported", "unexported", "twin", "embedded", "blank"}, "fname")
			if style == "blank" && (used["_"] || nf == 1) {
				style = "exported"
			}
			emb := false
			switch style {
			case "exported":
				name = fmt.Sprintf("Fld%d", i)
			case "blank":
				name = "_" // padding: never injected, cannot be named
			case "unexported":
				name = fmt.Sprintf("fld%d", i)
			case "twin":
				// differs from an earlier field only in letter case
				for _, f := range fields {
					if !f.Embedded {
						c := swapCase(f.Name)
						if !used[c] {
							name = c
							break
						}
					}
				}
				if name == "" {
					name = fmt.Sprintf("Fld%d", i)
				}
			case "embedded":
				ft := ftypes[i]
				if ft.K == "named" {
					name = s.Decls[ft.Decl].Name
					emb = true
				} else if ft.K == "ptr" && ft.Elem.K == "named" {
					name = s.Decls[ft.Elem.Decl].Name
					emb = true
				} else {
					name = fmt.Sprintf("Fld%d", i)
				}
			}
			if used[name] {
				name = fmt.Sprintf("Fld%dx", i)
				emb = false
			}
			used[name] = true
			fields = append(fields, SField{Name: name, T: ftypes[i], Tag: x.pick(c12Tags, "tag"), Embedded: emb})
		}
		// sometimes a field that is never injected shares its type with a later
		// field that is: prevented by its tag (so that "*" skips it) and never
		// named; the model treats it like any other field
		twinName := ""
		if x.pct(30, "twinfield") {
			k := x.intn(0, len(fields)-1, "twinof")
			twinName = fmt.Sprintf("Twin%d", k)
			tw := SField{Name: twinName, T: fields[k].T, Tag: x.pick([]string{`wire:"-"`, `json:"t" wire:"-"`}, "twintag")}
			fields = append(fields[:k], append([]SField{tw}, fields[k:]...)...)
		}
		s.Decls = append(s.Decls, Decl{Pkg: spkg, Name: "S", Form: "struct", Fields: fields})
		S := Named(len(s.Decls) - 1)
		// providers for every field type, kept in a nested set so that unselected ones are not "unused"
		var deps []Ref
		fieldProv := make([]int, nf)
		for i := 0; i < nf; i++ {
			fieldProv[i] = addItem(s, Item{Kind: "func", Pkg: spkg, Name: fmt.Sprintf("ProvideF%d", i), Out: ftypes[i], Cleanup: x.pct(20, "fcl"), Err: x.pct(20, "ferr")})
			deps = append(deps, RItem(fieldProv[i]))
		}
		// name list helper
		nameList := func(allowBad bool) ([]string, string) {
			mode := x.pick([]string{"subset", "subset", "subset", "all", "badcase", "unknown", "dup", "promoted"}, "names")
			if !allowBad && (mode == "badcase" || mode == "unknown" || mode == "dup" || mode == "promoted") {
				mode = "subset"
			}
			if mode == "promoted" {
				// the name of a field of an embedded struct (every fresh struct
				// has a field Tok): a selector S.Tok is legal Go, but Tok is not
				// a field of S
				mode = "unknown-tok"
				for _, f := range fields {
					if f.Embedded {
						mode = "promoted"
					}
				}
			}
			var names []string
			for _, f := range fields {
				if f.Name == twinName {
					continue
				}
				if mode == "all" || x.pct(55, "sel") {
					names = append(names, f.Name)
				}
			}
			switch mode {
			case "badcase":
				if len(fields) > 0 {
					names = append(names, swapCase(fields[x.intn(0, nf-1, "badidx")].Name))
				}
			case "promoted", "unknown-tok":
				names = append(names, "Tok")
			case "unknown":
				names = append(names, x.pick([]string{"Nope", "tok", "", " ", "S", "**", "_", "_"}, "unknownname"))
			case "dup":
				if len(names) > 0 {
					names = append(names, names[0])
				}
			}
			if len(names) > 1 && x.pct(50, "shufflenames") {
				names = rapid.Permutation(names).Draw(t, "nameorder")
			}
			return names, mode
		}
		in := Injector{Name: "Inject", File: 0, Cleanup: true, Err: true, Panic: x.pct(50, "panicform")}
		form := x.pick([]string{"struct", "struct", "fields", "fields", "fields"}, "form")
		note, note2 := "", ""
		if form == "struct" {
			it := Item{Kind: "struct", Out: S}
			if x.pct(30, "star") {
				it.Star = true
				note = "star"
			} else {
				var mode string
				it.Fields, mode = nameList(true)
				note = "names-" + mode
			}
			si := addItem(s, it)
			s.Sets = append(s.Sets, Set{Pkg: spkg, Name: "Deps", Args: deps, AliasOf: -1})
			in.Args = []Ref{RSet(len(s.Sets) - 1), RItem(si)}
			// who consumes: the injector returns S or *S directly, or a consumer takes one/both
			switch x.pick([]string{"S", "*S", "consumer"}, "structuse") {
			case "S":
				in.Out = S
			case "*S":
				in.Out = Ptr(S)
			default:
				r := Named(addFreshStruct(s, 0, "R"))
				ps := [][]*Type{{S}, {Ptr(S)}, {S, Ptr(S)}, {Ptr(S), S}}[x.intn(0, 3, "consumes")]
				ci := addItem(s, Item{Kind: "func", Pkg: 0, Name: "Collect", Params: ps, Out: r})
				in.Args = append(in.Args, RItem(ci))
				in.Out = r
			}
			// the struct provider must be used: if no field is selected the deps set is unused -> drop it
			if !it.Star && len(it.Fields) == 0 {
				in.Args = in.Args[1:]
			}
			note = "struct " + note
		} else {
			parKind := x.pick([]string{"S", "S", "*S", "*S", "*S", "PS"}, "parentkind")
			ptrParent := parKind != "S"
			par := S
			switch parKind {
			case "*S":
				par = Ptr(S)
			case "PS":
				// a defined pointer type: a pointer parent by its underlying type
				s.Decls = append(s.Decls, Decl{Pkg: spkg, Name: "PS", Form: "def", Under: Ptr(S)})
				par = Named(len(s.Decls) - 1)
			}
			// what the parent's source provides: the parent type itself, or (near
			// miss) the underlying type of a defined parent, which does not satisfy it
			provPar := par
			if parKind == "PS" && x.pct(30, "underlyingsource") {
				provPar = Ptr(S)
				parKind = "PS-from-*S"
			}
			names, mode := nameList(true)
			if len(names) == 0 {
				names = []string{fields[0].Name}
			}
			fi := addItem(s, Item{Kind: "fields", Parent: par, Fields: names})
			in.Args = []Ref{RItem(fi)}
			// source of the parent
			psrc := x.pick([]string{"func", "func", "arg", "value", "struct"}, "parentsrc")
			if strings.HasPrefix(parKind, "PS") && psrc == "struct" {
				psrc = "func"
			}
			switch psrc {
			case "func":
				in.Args = append(in.Args, RItem(addItem(s, Item{Kind: "func", Pkg: spkg, Name: "ProvideS", Out: provPar, Cleanup: x.pct(20, "pcl")})))
			case "arg":
				in.Params = append(in.Params, Param{Name: "parent", T: provPar})
			case "value":
				in.Args = append(in.Args, RItem(addItem(s, Item{Kind: "value", Out: provPar, Tok: 5000})))
			case "struct":
				// S built by a struct provider filling every field (tags ignored: name them explicitly)
				var all []string
				ok := true
				for _, f := range fields {
					if strings.Contains(f.Tag, `wire:"-"`) && !strings.Contains(f.Tag, `\"`) {
						ok = false
					}
					all = append(all, f.Name)
				}
				if ok {
					in.Args = append(in.Args, RItem(addItem(s, Item{Kind: "struct", Out: S, Fields: all})))
					in.Args = append(in.Args, deps...)
				} else {
					psrc = "func"
					in.Args = append(in.Args, RItem(addItem(s, Item{Kind: "func", Pkg: spkg, Name: "ProvideS", Out: par})))
				}
			}
			// the other form of the struct (S for a *S parent, *S for an S parent)
			// comes from an unrelated injector argument: fields must still be read
			// from the designated parent
			if parKind != "PS" && parKind != "PS-from-*S" && psrc != "struct" && x.pct(25, "otherformarg") {
				other := Ptr(S)
				if ptrParent {
					other = S
				}
				in.Params = append(in.Params, Param{Name: "otherform", T: other})
				note2 = " otherform-arg"
			}
			// consumer: parent (sometimes), each listed field by value, pointer, or both, in drawn order
			var ps []*Type
			if x.pct(70, "consumeparent") {
				ps = append(ps, par)
			}
			seenName := map[string]bool{}
			for _, n := range names {
				if seenName[n] {
					continue
				}
				seenName[n] = true
				var ft *Type
				for _, f := range fields {
					if f.Name == n {
						ft = f.T
					}
				}
				if ft == nil {
					continue
				}
				switch x.pick([]string{"value", "ptr", "both", "both"}, "fielduse") {
				case "value":
					ps = append(ps, ft)
				case "ptr":
					if ptrParent {
						ps = append(ps, Ptr(ft))
					} else {
						ps = append(ps, ft)
					}
				default:
					ps = append(ps, ft)
					if ptrParent {
						ps = append(ps, Ptr(ft))
					}
				}
			}
			// identical parameter types are not allowed: dedupe by key
			s.SetName("x")
			m0 := NewModel(s)
			var uniq []*Type
			keys := map[string]bool{}
			for _, p := range ps {
				if k := m0.K(p); !keys[k] {
					keys[k] = true
					uniq = append(uniq, p)
				}
			}
			if len(uniq) > 1 {
				uniq = rapid.Permutation(uniq).Draw(t, "consumerorder")
			}
			r := Named(addFreshStruct(s, 0, "R"))
			ci := addItem(s, Item{Kind: "func", Pkg: 0, Name: "Collect", Params: uniq, Out: r})
			in.Args = append(in.Args, RItem(ci))
			in.Out = r
			note = fmt.Sprintf("fields names-%s parent=%s ptr=%v", mode, psrc, ptrParent) + note2
			if strings.HasPrefix(parKind, "PS") {
				note += " kind=" + parKind
			}
		}
		if len(in.Args) > 1 && x.pct(50, "shuffleargs") {
			in.Args = rapid.Permutation(in.Args).Draw(t, "argorder")
		}
		s.Injectors = []Injector{in}
		s.Note = "C12 " + note + fmt.Sprintf(" spkg=%d", spkg)
		refreshPlan(s)
		return s
	})
}

func swapCase(n string) string {
	if n == "" {
		return n
	}
	c := n[0]
	switch {
	case c >= 'a' && c <= 'z':
		return string(c-32) + n[1:]
	case c >= 'A' && c <= 'Z':
		return string(c+32) + n[1:]
	}
	return n
}

func init() {
	mutProperty("C12", "exploration",
		"dedicated generator around one struct type S (1-5 fields; exported, unexported, case-twin and embedded names; tags wire:\"-\" alone, after or before other keys, and look-alikes; S in the injector's or another package): wire.Struct(new(S), subset | \"*\" | wrong-case | unknown | duplicated names) consumed as S, *S or both; or wire.FieldsOf(new(S|*S), names) over a parent supplied by function, argument, value or struct provider, with every listed field consumed by value, by pointer or both in drawn parameter order, next to a consumer of the parent. Oracle: reference model verdict (exact name match, prevent tags, visibility); accepted programs are compiled and executed: the built struct has exactly the named fields equal to their sources and zero elsewhere, selected fields equal the parent's field, and a provided pointer-to-field has the address of the field inside the provided struct (field-address identity recorded by the runner). Non-trivial = every generated program (all exercise struct/field selection); distinct by program hash.",
		genC12, "", func(e *ProgEval, x expectation) bool { return true }, true, 400, 2500)
}
