package props

import (
	"encoding/json"
	"fmt"
	"os"
	"sort"

	"pgregory.net/rapid"

	. "verif/harness/eng"
)

// DebugWF draws n programs and prints those the model rejects (first few),
// or writes the rendered files of program number `show` to dir.
func DebugWF(seed uint64, n int, show int, dir string) {
	i := 0
	bad := 0
	RapidCheck("debug", n, seed, 0, func(t *rapid.T) {
		s := GenWF(WFOpts{}).Draw(t, "program")
		s.SetName("dbg")
		m := NewModel(s)
		for k := range s.Injectors {
			v := m.Judge(k)
			if !v.Accept && bad < 3 {
				bad++
				b, _ := json.MarshalIndent(s, "", " ")
				fmt.Printf("=== program %d injector %d rejected: %+v\n%s\n", i, k, v.Errs, b)
				r := &Renderer{S: s, M: m}
				fs := r.Files()
				var names []string
				for f := range fs {
					names = append(names, f)
				}
				sort.Strings(names)
				for _, f := range names {
					fmt.Printf("--- %s\n%s\n", f, fs[f])
				}
			}
		}
		if i == show && dir != "" {
			r := &Renderer{S: s, M: m}
			WriteTree(dir, r.Files())
			b, _ := json.MarshalIndent(s, "", " ")
			os.WriteFile(dir+"/spec.json", b, 0o666)
		}
		i++
	})
	fmt.Println("drawn", i, "rejected-by-model", bad)
}

// DebugRender renders the program stored in a replay file into dir.
func DebugRender(replay, dir string) {
	b, err := os.ReadFile(replay)
	if err != nil {
		fmt.Println(err)
		return
	}
	var rf ReplayFile
	json.Unmarshal(b, &rf)
	var s Spec
	if err := json.Unmarshal(rf.Case, &s); err != nil {
		fmt.Println(err)
		return
	}
	s.SetName("dbg")
	r := &Renderer{S: &s, M: NewModel(&s)}
	WriteTree(dir, r.Files())
	fmt.Println("rendered to", dir)
}
