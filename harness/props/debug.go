package props

import (
	"encoding/json"
	"fmt"
	"os"
	"sort"
	"strings"

	"pgregory.net/rapid"

	. "verif/harness/eng"
)

// DebugWF draws n programs and prints those the model rejects (first few),
// or writes the rendered files of program number `show` to dir.
func DebugWF(seed uint64, n int, show int, dir string) {
	i := 0
	bad := 0
	RapidCheck("debug", n, seed, 0, func(t *rapid.T) {
		s := GenWF(WFOpts{}).Draw(t, "program")
		s.SetName("dbg")
		m := NewModel(s)
		for k := range s.Injectors {
			v := m.Judge(k)
			if !v.Accept && bad < 3 {
				bad++
				b, _ := json.MarshalIndent(s, "", " ")
				fmt.Printf("=== program %d injector %d rejected: %+v\n%s\n", i, k, v.Errs, b)
				r := &Renderer{S: s, M: m}
				fs := r.Files()
				var names []string
				for f := range fs {
					names = append(names, f)
				}
				sort.Strings(names)
				for _, f := range names {
					fmt.Printf("--- %s\n%s\n", f, fs[f])
				}
			}
		}
		if i == show && dir != "" {
			r := &Renderer{S: s, M: m}
			WriteTree(dir, r.Files())
			b, _ := json.MarshalIndent(s, "", " ")
			os.WriteFile(dir+"/spec.json", b, 0o666)
		}
		i++
	})
	fmt.Println("drawn", i, "rejected-by-model", bad)
}

// DebugRender renders the program stored in a replay file into dir.
func DebugRender(replay, dir string) {
	b, err := os.ReadFile(replay)
	if err != nil {
		fmt.Println(err)
		return
	}
	var rf ReplayFile
	json.Unmarshal(b, &rf)
	var s Spec
	if err := json.Unmarshal(rf.Case, &s); err != nil {
		fmt.Println(err)
		return
	}
	s.SetName("dbg")
	r := &Renderer{S: &s, M: NewModel(&s)}
	WriteTree(dir, r.Files())
	fmt.Println("rendered to", dir)
}

// DebugCycles draws n programs from the named generator and reports the first
// few whose rendered packages import the root package (an import cycle).
func DebugCycles(which string, seed uint64, n int) {
	gens := map[string]func() *rapid.Generator[*Spec]{"C05": genC05, "C06": genC06, "C08": genC08, "C09": genC09, "C11": genC11, "C12": genC12, "C13": genC13}
	g := gens[which]
	bad := 0
	RapidCheck("debug", n, seed, 0, func(t *rapid.T) {
		s := g().Draw(t, "program")
		s.SetName("dbg")
		r := &Renderer{S: s, M: NewModel(s)}
		for name, src := range r.Files() {
			if !strings.Contains(name, "/") {
				continue
			}
			if strings.Contains(src, "\"example.com/m/progs/dbg\"") && bad < 2 {
				bad++
				b, _ := json.Marshal(s)
				fmt.Printf("=== %s imports root; note=%s\n%s\n--- %s\n%s\n", name, s.Note, b, name, src)
			}
		}
	})
	fmt.Println("bad", bad)
}
