package props

import (
	"encoding/json"
	"fmt"
	"sort"
	"strings"
	"time"

	"pgregory.net/rapid"

	. "verif/harness/eng"
)

// mutCtx wraps the rapid draws used by the defect injectors.
type mutCtx struct {
	t *rapid.T
	s *Spec
}

func (x *mutCtx) intn(lo, hi int, l string) int { return rapid.IntRange(lo, hi).Draw(x.t, l) }
func (x *mutCtx) pct(p int, l string) bool      { return rapid.IntRange(0, 99).Draw(x.t, l) < p }

// rarely is true with probability 2^-bits (fair coin flips: rapid's integer
// generators favour small values, so pct(5) fires far more often than 5%).
func (x *mutCtx) rarely(bits int, l string) bool {
	for i := 0; i < bits; i++ {
		if !rapid.Bool().Draw(x.t, l) {
			return false
		}
	}
	return true
}
func (x *mutCtx) pick(xs []string, l string) string {
	return rapid.SampledFrom(xs).Draw(x.t, l)
}
func (x *mutCtx) fresh(prefix string) string {
	return fmt.Sprintf("%s%d", prefix, len(x.s.Decls)+len(x.s.Items)+31*len(x.s.Sets))
}

// pkgBetween draws a package in [lo, hi] (clamped).
func (x *mutCtx) pkgBetween(lo, hi int, l string) int {
	if hi < lo {
		return lo
	}
	return x.intn(lo, hi, l)
}

// place appends refs to list li either directly, wrapped in an inline set, or
// wrapped in a new named set; returns the placement name.
func (x *mutCtx) place(li int, refs []Ref, minTypePkg int, allow []string) string {
	s := x.s
	how := x.pick(allow, "placement")
	lp := listPkg(s, li)
	l := argLists(s)[li]
	switch how {
	case "direct":
		*l = append(*l, refs...)
	case "inline":
		*l = append(*l, RInline(refs))
	case "named":
		q := x.pkgBetween(lp, minTypePkg, "newsetpkg")
		s.Sets = append(s.Sets, Set{Pkg: q, Name: x.fresh("XSet"), Args: refs, AliasOf: -1})
		l = argLists(s)[li]
		*l = append(*l, RSet(len(s.Sets)-1))
	}
	return how
}

func baseWF(t *rapid.T, o WFOpts) *Spec {
	o.NoFaults = true
	if o.MaxNodes == 0 {
		o.MaxNodes = 9
	}
	if o.Names == 0 {
		o.Names = 25
	}
	s := GenWF(o).Draw(t, "base")
	s.SetName("x")
	return s
}

func srcKindOf(m *Model, s *Src) string {
	k := s.Kind
	if k == "struct" && s.StructPtr {
		k = "structptr"
	}
	if k == "field" && s.FieldPtr {
		k = "fieldptr"
	}
	return k
}

// ---------------------------------------------------------------------------
// C05: a second source for a type that already has one.

func genC05() *rapid.Generator[*Spec] {
	return rapid.Custom(func(t *rapid.T) *Spec {
		s := baseWF(t, WFOpts{})
		x := &mutCtx{t: t, s: s}
		m := NewModel(s)
		lists := argLists(s)
		li := x.intn(0, len(lists)-1, "list")
		isBuild, inj := isBuildList(s, li)
		var params []Param
		if isBuild {
			params = s.Injectors[inj].Params
		}
		set := m.EvalSet(*lists[li], params)
		if len(set.Keys) == 0 || len(set.Errs) > 0 {
			s.Note = "C05 none"
			return s
		}
		if x.rarely(4, "hashcollide") {
			// three new providers in one list: T, then a different type U that a
			// structural hash cannot tell from T (same fields, other order), then T again
			mkT := func() *Type {
				return &Type{K: "structlit", Fields: []LitField{{Name: "A", T: Basic("int")}, {Name: "B", T: Basic("string")}}}
			}
			u := &Type{K: "structlit", Fields: []LitField{{Name: "B", T: Basic("string")}, {Name: "A", T: Basic("int")}}}
			lp := listPkg(s, li)
			for i, ty := range []*Type{mkT(), u, mkT()} {
				it := addItem(s, Item{Kind: "func", Pkg: lp, Name: x.fresh(fmt.Sprintf("ProvideHC%d", i)), Out: ty})
				lists = argLists(s)
				*lists[li] = append(*lists[li], RItem(it))
			}
			s.Note = "C05 hashcollide"
			refreshPlan(s)
			return s
		}
		keys := append([]string(nil), set.Keys...)
		sort.Strings(keys)
		key := keys[x.intn(0, len(keys)-1, "victim")]
		vs := set.Map[key].Src
		T := vs.T
		lp := listPkg(s, li)
		tmin := typeMinPkg(s, T, len(s.Pkgs)-1)
		if tmin < lp {
			tmin = lp
		}
		// how the duplicate spells the type
		flavour := x.pick([]string{"same", "same", "alias", "near-named", "near-ptr"}, "flavour")
		D := T
		switch flavour {
		case "alias":
			s.Decls = append(s.Decls, Decl{Pkg: tmin, Name: x.fresh("AX"), Form: "alias", Under: T})
			D = Named(len(s.Decls) - 1)
		case "near-named": // a distinct named type with the same underlying type: must NOT conflict
			s.Decls = append(s.Decls, Decl{Pkg: tmin, Name: x.fresh("NX"), Form: "def", Under: T})
			D = Named(len(s.Decls) - 1)
			if IsInterface(s, T) {
				D, flavour = T, "same"
			}
		case "near-ptr":
			D = Ptr(T)
		}
		// feasible duplicate kinds
		kinds := []string{"func", "func", "fields"}
		u, d := Underlying(s, D)
		isStruct := d != nil && d.Form == "struct"
		if isStruct {
			kinds = append(kinds, "struct", "struct", "value")
		}
		if rt := resolveT(s, D); rt.K == "ptr" {
			if sd := m.StructDecl(rt.Elem); sd != nil {
				kinds = append(kinds, "struct", "struct", "value")
			}
		}
		if u != nil && (u.K == "basic" || u.K == "slice" || u.K == "map" || u.K == "array") {
			kinds = append(kinds, "value", "value")
		}
		r := &Renderer{S: s, M: m}
		if IsInterface(s, D) && len(IfaceMethods(s, D)) > 0 {
			kinds = append(kinds, "bind", "bind")
			if r.Implementer(D) != nil {
				kinds = append(kinds, "ivalue", "ivalue")
			}
		}
		if isBuild {
			kinds = append(kinds, "arg", "arg")
		}
		if rt := resolveT(s, D); rt.K == "ptr" {
			kinds = append(kinds, "fieldsptr", "fieldsptr")
		}
		if vs.Kind == "bind" && flavour == "same" {
			kinds = append(kinds, "rebind", "rebind", "rebind")
		}
		hasSet := false
		for _, rf := range *lists[li] {
			if rf.Set >= 0 {
				hasSet = true
			}
		}
		if hasSet {
			kinds = append(kinds, "settwice")
		}
		if !r.ConstOK(D) {
			// not writable inside wire.Value (e.g. a generic type with two type arguments)
			var ks []string
			for _, k := range kinds {
				if k != "value" {
					ks = append(ks, k)
				}
			}
			kinds = ks
		}
		kind := x.pick(kinds, "dupkind")
		placements := []string{"direct", "direct", "inline", "named"}
		var refs []Ref
		switch kind {
		case "func":
			refs = []Ref{RItem(addItem(s, Item{Kind: "func", Pkg: tmin, Name: x.fresh("DupProvide"), Out: D}))}
		case "struct":
			st := resolveT(s, D)
			if st.K == "ptr" {
				st = st.Elem
			}
			refs = []Ref{RItem(addItem(s, Item{Kind: "struct", Out: st}))}
		case "value":
			refs = []Ref{RItem(addItem(s, Item{Kind: "value", Out: D, Tok: 4242}))}
		case "ivalue":
			refs = []Ref{RItem(addItem(s, Item{Kind: "ivalue", Out: D, Conc: r.Implementer(D), Tok: 4243}))}
		case "bind":
			var ms []Method
			for _, mn := range IfaceMethods(s, D) {
				ms = append(ms, Method{Name: mn})
			}
			s.Decls = append(s.Decls, Decl{Pkg: tmin, Name: x.fresh("DupImpl"), Form: "struct", Fields: []SField{{Name: "Tok", T: Basic("int")}}, Methods: ms})
			c := Named(len(s.Decls) - 1)
			p := addItem(s, Item{Kind: "func", Pkg: tmin, Name: x.fresh("DupProvideImpl"), Out: c})
			bi := addItem(s, Item{Kind: "bind", Out: D, Conc: c})
			refs = []Ref{RItem(p), RItem(bi)}
		case "fields":
			s.Decls = append(s.Decls, Decl{Pkg: tmin, Name: x.fresh("DupHolder"), Form: "struct", Fields: []SField{{Name: "Tok", T: Basic("int")}, {Name: "F", T: D}}})
			h := Named(len(s.Decls) - 1)
			par := h
			if x.pct(50, "holderptr") {
				par = Ptr(h)
			}
			p := addItem(s, Item{Kind: "func", Pkg: tmin, Name: x.fresh("DupProvideHolder"), Out: par})
			fi := addItem(s, Item{Kind: "fields", Parent: par, Fields: []string{"F"}})
			refs = []Ref{RItem(p), RItem(fi)}
		case "fieldsptr":
			// the pointer-to-field output of FieldsOf(new(*Holder), "F") duplicates D = *X
			et := resolveT(s, D).Elem
			s.Decls = append(s.Decls, Decl{Pkg: tmin, Name: x.fresh("DupPHolder"), Form: "struct", Fields: []SField{{Name: "Tok", T: Basic("int")}, {Name: "F", T: et}}})
			h := Ptr(Named(len(s.Decls) - 1))
			p := addItem(s, Item{Kind: "func", Pkg: tmin, Name: x.fresh("DupProvidePHolder"), Out: h})
			fi := addItem(s, Item{Kind: "fields", Parent: h, Fields: []string{"F"}})
			refs = []Ref{RItem(p), RItem(fi)}
		case "rebind":
			// the very same binding written a second time somewhere else
			orig := s.Items[vs.Item]
			refs = []Ref{RItem(addItem(s, Item{Kind: "bind", Out: orig.Out, Conc: orig.Conc}))}
			placements = []string{"direct", "direct", "inline"}
		case "arg":
			in := &s.Injectors[inj]
			name := x.fresh("dup")
			if len(in.Params) > 0 && in.Params[0].Name == "" {
				name = ""
			} else if len(in.Params) > 0 && in.Params[0].Name == "_" {
				name = "_"
			}
			if in.Variadic {
				// keep the variadic parameter last
				in.Params = append([]Param{{Name: name, T: D}}, in.Params...)
			} else {
				in.Params = append(in.Params, Param{Name: name, T: D})
			}
		case "settwice":
			for _, rf := range *lists[li] {
				if rf.Set >= 0 {
					refs = []Ref{rf}
					if sp := s.Sets[rf.Set].Pkg; sp < tmin {
						tmin = sp
					}
					break
				}
			}
			placements = []string{"direct", "inline", "named"}
		}
		how := "param"
		if kind != "arg" {
			how = x.place(li, refs, tmin, placements)
		}
		where := "set"
		if isBuild {
			where = "build"
		}
		s.Note = fmt.Sprintf("C05 cell victim=%s dup=%s flavour=%s placement=%s in=%s", srcKindOf(m, vs), kind, flavour, how, where)
		refreshPlan(s)
		return s
	})
}

// ---------------------------------------------------------------------------
// C06: a needed source removed or replaced by a near miss.

func genC06() *rapid.Generator[*Spec] {
	return rapid.Custom(func(t *rapid.T) *Spec {
		if rapid.IntRange(0, 99).Draw(t, "sharedfamily") < 20 {
			s := genShared(true).Draw(t, "shared")
			s.Note = "C06 " + s.Note
			return s
		}
		s := baseWF(t, WFOpts{})
		x := &mutCtx{t: t, s: s}
		m := NewModel(s)
		k := x.intn(0, len(s.Injectors)-1, "inj")
		v := m.Judge(k)
		if !v.Accept || len(v.Needed) == 0 {
			s.Note = "C06 none"
			return s
		}
		key := v.Needed[x.intn(0, len(v.Needed)-1, "needed")]
		src := v.Set.Map[key].Src
		pos := "interior"
		if len(m.Deps(src)) == 0 {
			pos = "leaf"
		}
		if key == m.K(s.Injectors[k].Out) {
			pos = "root"
		}
		if x.rarely(3, "shadowparam") {
			// a later injector gets a parameter spelled like a provider function of
			// its own package that its build list names: the list then names the
			// parameter; the function itself (which an earlier injector uses as
			// a provider) is not in this injector's build list at all
			for _, a := range s.Injectors[k].Args {
				if a.Item >= 0 && s.Items[a.Item].Kind == "func" && s.Items[a.Item].Pkg == 0 {
					warm := s.Injectors[k]
					warm.Name = x.fresh("InjectWarm")
					warm.Args = append([]Ref(nil), warm.Args...)
					warm.Params = append([]Param(nil), warm.Params...)
					warm.ResNames = nil
					s.Injectors[k].Params = append(append([]Param(nil), s.Injectors[k].Params...), Param{Name: s.Items[a.Item].Name, T: Named(addFreshStruct(s, 0, x.fresh("Other")))})
					s.Injectors[k].Variadic = false
					s.Injectors[k].ResNames = nil
					for pi := range s.Injectors[k].Params {
						if s.Injectors[k].Params[pi].Name == "" {
							s.Injectors[k].Params[pi].Name = fmt.Sprintf("zzq%d", pi)
						}
					}
					// the unshadowed twin comes first in the file
					s.Injectors = append([]Injector{warm}, s.Injectors...)
					s.Note = fmt.Sprintf("C06 shadowparam pos=%s", pos)
					refreshPlan(s)
					return s
				}
			}
		}
		mut := x.pick([]string{"remove", "remove", "remove", "nearmiss", "nearmiss", "alias", "remove-one", "remove-one", "twin-type", "twin-type", "starfield", "starfield", "starfield", "starfield"}, "mut")
		if mut == "starfield" {
			// a struct built by wire.Struct(new(S), "*") gains a field whose type
			// nothing provides: exported or not, in the injector's package or not,
			// the gap must be reported, never left at its zero value
			var stars []int
			for _, k2 := range v.Needed {
				if s2 := v.Set.Map[k2].Src; s2.Kind == "struct" && s.Items[s2.Item].Star {
					stars = append(stars, s2.Item)
				}
			}
			if len(stars) == 0 {
				mut = "remove"
			} else {
				si := stars[x.intn(0, len(stars)-1, "star")]
				d := m.StructDecl(s.Items[si].Out)
				gapName := x.fresh("Gap")
				ft := Named(addFreshStruct(s, d.Pkg, gapName))
				d = m.StructDecl(s.Items[si].Out)
				if x.pct(50, "lockergap") {
					// the missing dependency happens to have Lock/Unlock methods
					// (say, it embeds a mutex): it is a dependency all the same
					if s.PkgExtra == nil {
						s.PkgExtra = map[int]string{}
					}
					s.PkgExtra[d.Pkg] += fmt.Sprintf("func (*%s) Lock() {}\n\nfunc (*%s) Unlock() {}\n", gapName, gapName)
					if x.pct(50, "gapptr") {
						ft = Ptr(ft)
					}
				}
				name := x.pick([]string{"ZzGap", "zzgap", "zzgap"}, "gapfield")
				d.Fields = append(d.Fields, SField{Name: name, T: ft, Tag: x.pick([]string{"", "", `json:"-"`, `xwire:"-"`}, "gaptag")})
				s.Note = fmt.Sprintf("C06 starfield %s pkg=%d pos=%s", name, d.Pkg, pos)
				refreshPlan(s)
				return s
			}
		}
		if mut == "twin-type" {
			// prefer a needed generic instantiation, if the program has one
			for _, k2 := range v.Needed {
				s2 := v.Set.Map[k2].Src
				if s2.Kind == "func" {
					if t2 := resolveT(s, s2.T); t2.K == "named" && len(t2.Args) > 0 {
						key, src = k2, s2
						break
					}
				}
			}
			// the provider now returns a type of the same name from another package of the same
			// name; a consumer takes both, the twin first: the original has no source any more
			done := false
			if src.Kind == "func" {
				st := resolveT(s, src.T)
				if st.K == "named" && len(st.Args) > 0 {
					// generic type: the twin is another instantiation of the same declaration
					for ci := range s.Items {
						c := &s.Items[ci]
						if c.Kind != "func" || c.Variadic {
							continue
						}
						for pi, pt := range c.Params {
							if m.K(pt) == key {
								tw := *st
								tw.Args = []*Type{Basic("bool")}
								if len(st.Args) == 2 {
									tw.Args = []*Type{st.Args[0], Basic("bool")}
								}
								twin := &tw
								s.Items[src.Item].Out = twin
								np2 := append([]*Type{}, c.Params[:pi]...)
								np2 = append(np2, twin)
								np2 = append(np2, c.Params[pi:]...)
								c.Params = np2
								done = true
								break
							}
						}
						if done {
							break
						}
					}
				}
				if !done && st.K == "named" && len(st.Args) == 0 && s.Decls[st.Decl].Form == "struct" && isExportedName(s.Decls[st.Decl].Name) {
					for ci := range s.Items {
						c := &s.Items[ci]
						if c.Kind != "func" || c.Variadic {
							continue
						}
						for pi, pt := range c.Params {
							if m.K(pt) == key {
								od := s.Decls[st.Decl]
								s.Pkgs = append(s.Pkgs, Pkg{Dir: x.fresh("twinpkg"), Name: s.Pkgs[od.Pkg].Name})
								np := len(s.Pkgs) - 1
								if s.ImportAlias == nil {
									s.ImportAlias = map[int]string{}
								}
								s.ImportAlias[np] = x.fresh("twp")
								s.Decls = append(s.Decls, Decl{Pkg: np, Name: od.Name, Form: "struct", Fields: []SField{{Name: "Tok", T: Basic("int")}}})
								twin := Named(len(s.Decls) - 1)
								// the consumer and the provider must be able to import the new package
								if c.Pkg != 0 || s.Items[src.Item].Pkg != 0 {
									// keep it simple: only when both live in the root package
									s.Pkgs = s.Pkgs[:np]
									s.Decls = s.Decls[:len(s.Decls)-1]
									delete(s.ImportAlias, np)
									break
								}
								s.Items[src.Item].Out = twin
								np2 := append([]*Type{}, c.Params[:pi]...)
								np2 = append(np2, twin)
								np2 = append(np2, c.Params[pi:]...)
								c.Params = np2
								done = true
								break
							}
						}
						if done {
							break
						}
					}
				}
			}
			if done {
				s.Note = fmt.Sprintf("C06 twin-type pos=%s", pos)
				refreshPlan(s)
				return s
			}
			mut = "remove"
		}
		if mut == "remove-one" {
			// the source disappears from this injector's own Build list only; other injectors keep it
			done := false
			if src.Kind != "arg" {
				in := &s.Injectors[k]
				var keep []Ref
				for _, a := range in.Args {
					if a.Item == src.Item && !done {
						done = true
						continue
					}
					keep = append(keep, a)
				}
				if done {
					in.Args = keep
					if keep == nil {
						in.Args = []Ref{}
					}
				}
			}
			if !done {
				mut = "remove"
			} else {
				s.Note = fmt.Sprintf("C06 remove-one %s pos=%s", srcKindOf(m, src), pos)
				refreshPlan(s)
				return s
			}
		}
		if src.Kind == "arg" {
			in := &s.Injectors[k]
			switch mut {
			case "remove":
				in.Params = append(append([]Param{}, in.Params[:src.Arg]...), in.Params[src.Arg+1:]...)
				if src.Arg == len(in.Params) {
					in.Variadic = false
				}
			case "nearmiss":
				if !(in.Variadic && src.Arg == len(in.Params)-1) {
					in.Params[src.Arg].T = Ptr(in.Params[src.Arg].T)
				}
			default:
				mut = "none"
			}
			s.Note = fmt.Sprintf("C06 %s arg pos=%s", mut, pos)
			refreshPlan(s)
			return s
		}
		it := &s.Items[src.Item]
		switch mut {
		case "remove":
			removeItemRefs(s, src.Item)
		case "nearmiss":
			switch it.Kind {
			case "func":
				o := resolveT(s, it.Out)
				if o.K == "named" && len(o.Args) > 0 {
					// another instantiation of the same generic type
					n := *o
					n.Args = []*Type{Basic("bool")}
					if len(o.Args) == 2 {
						n.Args = []*Type{o.Args[0], Basic("bool")}
					}
					it.Out = &n
				} else if o.K == "ptr" && x.pct(60, "unptr") {
					it.Out = o.Elem
				} else {
					it.Out = Ptr(it.Out)
				}
			case "value":
				// a distinct named type with the same underlying type
				s.Decls = append(s.Decls, Decl{Pkg: typeMinPkg(s, it.Out, len(s.Pkgs)-1), Name: x.fresh("NM"), Form: "def", Under: it.Out})
				it.Out = Named(len(s.Decls) - 1)
			case "bind":
				// only the implementing type stays provided
				removeItemRefs(s, src.Item)
			default:
				removeItemRefs(s, src.Item)
				mut = "remove"
			}
		case "alias":
			if it.Kind == "func" || it.Kind == "value" {
				s.Decls = append(s.Decls, Decl{Pkg: typeMinPkg(s, it.Out, len(s.Pkgs)-1), Name: x.fresh("AL"), Form: "alias", Under: it.Out})
				it.Out = Named(len(s.Decls) - 1)
			} else {
				mut = "none"
			}
		}
		s.Note = fmt.Sprintf("C06 %s %s pos=%s pkg=%d", mut, srcKindOf(m, src), pos, it.Pkg)
		refreshPlan(s)
		return s
	})
}

// ---------------------------------------------------------------------------
// C08: a superfluous direct wire.Build argument.

func genC08() *rapid.Generator[*Spec] {
	return rapid.Custom(func(t *rapid.T) *Spec {
		s := baseWF(t, WFOpts{})
		x := &mutCtx{t: t, s: s}
		m := NewModel(s)
		k := x.intn(0, len(s.Injectors)-1, "inj")
		v := m.Judge(k)
		if !v.Accept {
			s.Note = "C08 none"
			return s
		}
		in := &s.Injectors[k]
		kind := x.pick([]string{"sharedset", "genericfield", "func", "value", "ivalue", "bind", "bind", "fields", "set", "inline", "inline2", "shared", "shared", "nest-control", "struct", "twinfunc", "twinfunc", "emptyset", "emptyinline", "emptynested"}, "extra")
		noShuffle := false
		freshT := func() *Type { return Named(addFreshStruct(s, 0, x.fresh("U"))) }
		if kind == "sharedset" && len(s.Injectors) > 1 {
			// the later the injector, the more earlier ones it can share a set with
			if vl := m.Judge(len(s.Injectors) - 1); vl.Accept {
				k = len(s.Injectors) - 1
				v = vl
				in = &s.Injectors[k]
			}
		}
		switch kind {
		case "func":
			in.Args = append(in.Args, RItem(addItem(s, Item{Kind: "func", Pkg: 0, Name: x.fresh("ProvideU"), Out: freshT()})))
		case "value":
			in.Args = append(in.Args, RItem(addItem(s, Item{Kind: "value", Out: freshT(), Tok: 777})))
		case "struct":
			in.Args = append(in.Args, RItem(addItem(s, Item{Kind: "struct", Out: freshT()})))
		case "ivalue":
			mn := x.fresh("MU")
			s.Decls = append(s.Decls, Decl{Pkg: 0, Name: x.fresh("IU"), Form: "iface", IMeth: []string{mn}})
			ii := len(s.Decls) - 1
			s.Decls = append(s.Decls, Decl{Pkg: 0, Name: x.fresh("ImplU"), Form: "struct", Fields: []SField{{Name: "Tok", T: Basic("int")}}, Methods: []Method{{Name: mn}}})
			in.Args = append(in.Args, RItem(addItem(s, Item{Kind: "ivalue", Out: Named(ii), Conc: Named(len(s.Decls) - 1), Tok: 778})))
		case "bind":
			// a fresh interface bound to a concrete type this injector provides
			var cands []string
			for _, key := range v.Needed {
				st := resolveT(s, v.Set.Map[key].Src.T)
				base := st
				if st.K == "ptr" {
					base = resolveT(s, st.Elem)
				}
				if base.K == "named" && (s.Decls[base.Decl].Form == "struct" || s.Decls[base.Decl].Form == "def" && s.Decls[base.Decl].Under.K != "ptr" && s.Decls[base.Decl].Under.K != "ifacelit") && v.Set.Map[key].Src.Kind != "bind" {
					cands = append(cands, key)
				}
			}
			if len(cands) == 0 {
				kind = "func"
				in.Args = append(in.Args, RItem(addItem(s, Item{Kind: "func", Pkg: 0, Name: x.fresh("ProvideU"), Out: freshT()})))
				break
			}
			key := cands[x.intn(0, len(cands)-1, "conc")]
			ct := v.Set.Map[key].Src.T
			base := resolveT(s, ct)
			if base.K == "ptr" {
				base = resolveT(s, base.Elem)
			}
			mn := x.fresh("MB")
			s.Decls[base.Decl].Methods = append(s.Decls[base.Decl].Methods, Method{Name: mn})
			s.Decls = append(s.Decls, Decl{Pkg: 0, Name: x.fresh("IB"), Form: "iface", IMeth: []string{mn}})
			in.Args = append(in.Args, RItem(addItem(s, Item{Kind: "bind", Out: Named(len(s.Decls) - 1), Conc: ct})))
			noShuffle = x.pct(60, "bindlast") // the superfluous binding stays after the used ones
		case "fields":
			// an unused field of a struct this injector provides
			var cands []string
			for _, key := range v.Needed {
				st := resolveT(s, v.Set.Map[key].Src.T)
				if st.K == "ptr" {
					st = resolveT(s, st.Elem)
				}
				if st.K == "named" && s.Decls[st.Decl].Form == "struct" && s.Decls[st.Decl].Pkg == 0 {
					legacy := false
					for _, it := range s.Items {
						if it.Kind == "struct" && (it.Legacy || it.Star) && resolveT(s, it.Out).Decl == st.Decl {
							legacy = true
						}
					}
					if !legacy {
						cands = append(cands, key)
					}
				}
			}
			if len(cands) == 0 {
				kind = "value"
				in.Args = append(in.Args, RItem(addItem(s, Item{Kind: "value", Out: freshT(), Tok: 777})))
				break
			}
			key := cands[x.intn(0, len(cands)-1, "parent")]
			pt := v.Set.Map[key].Src.T
			st := resolveT(s, pt)
			if st.K == "ptr" {
				st = resolveT(s, st.Elem)
			}
			fn := x.fresh("UF")
			s.Decls[st.Decl].Fields = append(s.Decls[st.Decl].Fields, SField{Name: fn, T: freshT()})
			in.Args = append(in.Args, RItem(addItem(s, Item{Kind: "fields", Parent: pt, Fields: []string{fn}})))
		case "twinfunc":
			// a superfluous provider that prints like a used one: same package name, same function name,
			// different import path
			if len(v.FuncItems) == 0 {
				kind = "func"
				in.Args = append(in.Args, RItem(addItem(s, Item{Kind: "func", Pkg: 0, Name: x.fresh("ProvideU"), Out: freshT()})))
				break
			}
			used := &s.Items[v.FuncItems[x.intn(0, len(v.FuncItems)-1, "twinof")]]
			if r := []rune(used.Name); len(r) == 0 || !(r[0] >= 'A' && r[0] <= 'Z') {
				kind = "func"
				in.Args = append(in.Args, RItem(addItem(s, Item{Kind: "func", Pkg: 0, Name: x.fresh("ProvideU"), Out: freshT()})))
				break
			}
			s.Pkgs = append(s.Pkgs, Pkg{Dir: x.fresh("twin"), Name: s.Pkgs[used.Pkg].Name})
			np := len(s.Pkgs) - 1
			if s.ImportAlias == nil {
				s.ImportAlias = map[int]string{}
			}
			s.ImportAlias[np] = x.fresh("twinp")
			ft := Named(addFreshStruct(s, np, "TwinT"))
			in.Args = append(in.Args, RItem(addItem(s, Item{Kind: "func", Pkg: np, Name: used.Name, Out: ft})))
		case "set":
			it := addItem(s, Item{Kind: "func", Pkg: 0, Name: x.fresh("ProvideU"), Out: freshT()})
			s.Sets = append(s.Sets, Set{Pkg: 0, Name: x.fresh("USet"), Args: []Ref{RItem(it)}, AliasOf: -1})
			in.Args = append(in.Args, RSet(len(s.Sets)-1))
		case "genericfield":
			// the same field of two instantiations of one generic struct, one
			// selection needed and one superfluous (the two field objects share
			// their declaration)
			if len(v.FuncItems) == 0 {
				kind = "func"
				in.Args = append(in.Args, RItem(addItem(s, Item{Kind: "func", Pkg: 0, Name: x.fresh("ProvideU"), Out: freshT()})))
				break
			}
			last := len(s.Pkgs) - 1 // importable from every package
			s.Decls = append(s.Decls, Decl{Pkg: last, Name: x.fresh("GF"), Form: "struct", TParams: 1, Fields: []SField{{Name: "Tok", T: Basic("int")}, {Name: "V", T: &Type{K: "tparam", Basic: "P0"}}}})
			gf := len(s.Decls) - 1
			ua, ub := Named(addFreshStruct(s, last, x.fresh("UA"))), Named(addFreshStruct(s, last, x.fresh("UB")))
			ga := &Type{K: "named", Decl: gf, Args: []*Type{ua}}
			gb := &Type{K: "named", Decl: gf, Args: []*Type{ub}}
			pga := addItem(s, Item{Kind: "func", Pkg: 0, Name: x.fresh("ProvideGA"), Out: ga})
			pgb := addItem(s, Item{Kind: "func", Pkg: 0, Name: x.fresh("ProvideGB"), Out: gb})
			fa := addItem(s, Item{Kind: "fields", Parent: ga, Fields: []string{"V"}})
			fb := addItem(s, Item{Kind: "fields", Parent: gb, Fields: []string{"V"}})
			// a provider the injector needs now takes the field of G[A] and the whole G[B]
			cons := &s.Items[v.FuncItems[x.intn(0, len(v.FuncItems)-1, "gfconsumer")]]
			if cons.Variadic {
				cons.Params = append([]*Type{ua, gb}, cons.Params...)
			} else {
				cons.Params = append(cons.Params, ua, gb)
			}
			in = &s.Injectors[k]
			extra := []Ref{RItem(pga), RItem(pgb), RItem(fa), RItem(fb)}
			if x.pct(50, "gforder") {
				extra = []Ref{RItem(fb), RItem(pgb), RItem(fa), RItem(pga)}
			}
			in.Args = append(in.Args, extra...)
		case "emptyset":
			// a set that provides nothing at all contributes nothing either
			s.Sets = append(s.Sets, Set{Pkg: 0, Name: x.fresh("ESet"), Args: []Ref{}, AliasOf: -1})
			in.Args = append(in.Args, RSet(len(s.Sets)-1))
		case "emptyinline":
			in.Args = append(in.Args, RInline(nil))
		case "emptynested":
			s.Sets = append(s.Sets, Set{Pkg: 0, Name: x.fresh("ESet"), Args: []Ref{}, AliasOf: -1})
			s.Sets = append(s.Sets, Set{Pkg: 0, Name: x.fresh("ENest"), Args: []Ref{RSet(len(s.Sets) - 1), RInline(nil)}, AliasOf: -1})
			in.Args = append(in.Args, RSet(len(s.Sets)-1))
		case "inline":
			it := addItem(s, Item{Kind: "func", Pkg: 0, Name: x.fresh("ProvideU"), Out: freshT()})
			in.Args = append(in.Args, RInline([]Ref{RItem(it)}))
		case "inline2":
			// two inline sets, only one of which contributes
			if len(in.Args) > 0 {
				used := in.Args[0]
				in.Args[0] = RInline([]Ref{used})
			}
			it := addItem(s, Item{Kind: "func", Pkg: 0, Name: x.fresh("ProvideU"), Out: freshT()})
			in.Args = append(in.Args, RInline([]Ref{RItem(it)}))
		case "shared":
			// an item another injector uses but this one does not need
			var cands []int
			for j := range s.Injectors {
				if j == k {
					continue
				}
				vj := m.Judge(j)
				for _, it := range vj.FuncItems {
					needed := false
					for _, mine := range v.FuncItems {
						if mine == it {
							needed = true
						}
					}
					if _, clash := v.Set.Map[m.K(s.Items[it].Out)]; !needed && !clash {
						cands = append(cands, it)
					}
				}
			}
			if len(cands) == 0 {
				kind = "func"
				in.Args = append(in.Args, RItem(addItem(s, Item{Kind: "func", Pkg: 0, Name: x.fresh("ProvideU"), Out: freshT()})))
				break
			}
			in.Args = append(in.Args, RItem(cands[x.intn(0, len(cands)-1, "shareditem")]))
		case "sharedset":
			// a named set that an injector declared EARLIER lists directly and
			// uses, but this injector does not need at all
			var cands []int
			for j := 0; j < k; j++ {
				vj := m.Judge(j)
				if !vj.Accept {
					continue
				}
				for _, a := range s.Injectors[j].Args {
					if a.Set < 0 {
						continue
					}
					r := m.EvalSet([]Ref{a}, nil)
					if len(r.Errs) > 0 || len(r.Keys) == 0 {
						continue
					}
					clash := false
					for _, key := range r.Keys {
						if _, ok := v.Set.Map[key]; ok {
							clash = true
						}
					}
					if !clash {
						cands = append(cands, a.Set)
					}
				}
			}
			if len(cands) == 0 {
				kind = "func"
				in.Args = append(in.Args, RItem(addItem(s, Item{Kind: "func", Pkg: 0, Name: x.fresh("ProvideU"), Out: freshT()})))
				break
			}
			in.Args = append(in.Args, RSet(cands[x.intn(0, len(cands)-1, "sharedsetidx")]))
		case "nest-control":
			// indirect use: a needed direct item moves into a new nested set (must stay accepted)
			for ai, a := range in.Args {
				if a.Item >= 0 && s.Items[a.Item].Kind != "bind" {
					extra := addItem(s, Item{Kind: "func", Pkg: 0, Name: x.fresh("ProvideU"), Out: freshT()})
					in.Args[ai] = RInline([]Ref{a, RItem(extra)})
					break
				}
			}
		}
		if !noShuffle && x.pct(50, "shuffle") && len(in.Args) > 1 {
			in.Args = rapid.Permutation(in.Args).Draw(t, "order")
		}
		s.Note = "C08 extra=" + kind
		refreshPlan(s)
		return s
	})
}

// ---------------------------------------------------------------------------
// C09: signature rules.

// resultAtoms are the building blocks of result lists.
func resultAtom(x *mutCtx, name string, valueT *Type) *Type {
	s := x.s
	decl := func(d Decl) *Type {
		d.Pkg = len(s.Pkgs) - 1 // importable from every package
		for i := range s.Decls {
			if s.Decls[i].Name == d.Name {
				return Named(i)
			}
		}
		s.Decls = append(s.Decls, d)
		return Named(len(s.Decls) - 1)
	}
	switch name {
	case "T":
		return valueT
	case "*T":
		return Ptr(valueT)
	case "error":
		return &Type{K: "error"}
	case "func()":
		return Func(nil)
	case "aliasfunc":
		return decl(Decl{Pkg: 0, Name: "ClAlias", Form: "alias", Under: Func(nil)})
	case "namedfunc":
		return decl(Decl{Pkg: 0, Name: "ClNamed", Form: "def", Under: Func(nil)})
	case "otherfunc":
		return Func(Basic("int"))
	case "aliaserr":
		return decl(Decl{Pkg: 0, Name: "ErrAlias", Form: "alias", Under: &Type{K: "error"}})
	case "namederr":
		return decl(Decl{Pkg: 0, Name: "ErrNamed", Form: "iface", IMeth: []string{"Error0"}})
	case "int":
		return Basic("int")
	case "implerr", "implerrval":
		// concrete types that implement error (assignable to it, not identical)
		last := len(s.Pkgs) - 1
		if s.PkgExtra == nil {
			s.PkgExtra = map[int]string{}
		}
		if !strings.Contains(s.PkgExtra[last], "func (*ErrImpl) Error()") {
			s.PkgExtra[last] += "func (*ErrImpl) Error() string { return \"impl\" }\n\nfunc (ErrVal) Error() string { return \"val\" }\n"
		}
		impl := decl(Decl{Pkg: 0, Name: "ErrImpl", Form: "struct", Fields: []SField{{Name: "Tok", T: Basic("int")}}})
		val := decl(Decl{Pkg: 0, Name: "ErrVal", Form: "def", Under: Basic("int")})
		if name == "implerr" {
			return Ptr(impl)
		}
		return val
	}
	return valueT
}

var atomNames = []string{"T", "*T", "error", "func()", "aliasfunc", "namedfunc", "otherfunc", "aliaserr", "namederr", "int"}

// shapeNumber decodes shape number n into a result list of length 0..4.
func shapeFromNumber(n int) []string {
	// lengths: 0 ->1 shape, 1 -> 10, 2 -> 100, 3 -> 1000, 4 -> 10000 (sampled)
	if n == 0 {
		return []string{}
	}
	n--
	for l := 1; l <= 4; l++ {
		cnt := 1
		for i := 0; i < l; i++ {
			cnt *= len(atomNames)
		}
		if n < cnt {
			out := make([]string, l)
			for i := 0; i < l; i++ {
				out[i] = atomNames[n%len(atomNames)]
				n /= len(atomNames)
			}
			return out
		}
		n -= cnt
	}
	return []string{"T"}
}

const numShapes = 1 + 10 + 100 + 1000 + 10000

// respellPool holds types that have a second spelling (see eng.Respell).
var respellPool = []*Type{
	Slice(Basic("uint8")), Basic("uint8"), Basic("int32"), Map(Basic("int32")), Ptr(Basic("uint8")), Array(4, Basic("uint8")),
	{K: "ifacelit"}, Slice(&Type{K: "ifacelit"}), Func(Basic("int")), Func(Basic("string")), Slice(Func(Basic("uint8"))), Chan(0, Basic("int32")),
	{K: "structlit", Fields: []LitField{{Name: "A", T: Basic("uint8")}}},
}

func genC09() *rapid.Generator[*Spec] {
	return rapid.Custom(func(t *rapid.T) *Spec {
		s := baseWF(t, WFOpts{})
		x := &mutCtx{t: t, s: s}
		m := NewModel(s)
		mode := x.pick([]string{"provshape", "provshape", "provshape", "injshape", "injshape", "dupparam", "dupparam", "dupfield", "needs", "needs"}, "mode")
		k := x.intn(0, len(s.Injectors)-1, "inj")
		v := m.Judge(k)
		if !v.Accept {
			s.Note = "C09 none"
			return s
		}
		weighted := func() []string {
			// result lists biased to the atoms the rule table is about
			l := x.pick([]string{"0", "1", "2", "2", "2", "3", "3", "3", "3", "4"}, "shapelen2")
			n := int(l[0] - '0')
			out := make([]string, n)
			for i := range out {
				if i == 0 {
					out[i] = x.pick([]string{"T", "T", "*T", "error", "func()", "int"}, "atom0")
				} else {
					out[i] = x.pick([]string{"error", "error", "func()", "func()", "aliasfunc", "namedfunc", "otherfunc", "aliaserr", "namederr", "T", "int", "implerr", "implerr", "implerrval"}, "atom")
				}
			}
			return out
		}
		shapeNo := func() int {
			// bias to short lists; the long tail is sampled
			switch x.intn(0, 9, "shapelen") {
			case 0:
				return x.intn(0, 10, "shape01")
			case 1, 2, 3:
				return 11 + x.intn(0, 99, "shape2")
			case 4, 5, 6, 7:
				return 111 + x.intn(0, 999, "shape3")
			default:
				return 1111 + x.intn(0, 9999, "shape4")
			}
		}
		switch mode {
		case "provshape":
			// pick a provider function: needed, or an unneeded one in a nested set
			var funcs []int
			for i, it := range s.Items {
				if it.Kind == "func" {
					funcs = append(funcs, i)
				}
			}
			if len(funcs) == 0 {
				s.Note = "C09 none"
				return s
			}
			fi := funcs[x.intn(0, len(funcs)-1, "func")]
			it := &s.Items[fi]
			names := shapeFromNumber(shapeNo())
			if x.pct(60, "weightedshape") {
				names = weighted()
			}
			it.RawResults = []*Type{}
			for _, nm := range names {
				it.RawResults = append(it.RawResults, resultAtom(x, nm, it.Out))
			}
			it.Cleanup, it.Err = false, false
			// keep injectors able to return what an accepted shape may now need
			for j := range s.Injectors {
				s.Injectors[j].Cleanup, s.Injectors[j].Err = true, true
			}
			s.Note = "C09 provshape " + strings.Join(names, ",")
		case "injshape":
			in := &s.Injectors[k]
			names := shapeFromNumber(shapeNo())
			if x.pct(60, "weightedshape") {
				names = weighted()
			}
			in.RawResults = []*Type{}
			for _, nm := range names {
				in.RawResults = append(in.RawResults, resultAtom(x, nm, in.Out))
			}
			s.Note = "C09 injshape " + strings.Join(names, ",")
		case "dupparam":
			var funcs []int
			for i, it := range s.Items {
				if it.Kind == "func" && len(it.Params) > 0 {
					funcs = append(funcs, i)
				}
			}
			if len(funcs) == 0 {
				s.Note = "C09 none"
				return s
			}
			fi := funcs[x.intn(0, len(funcs)-1, "func")]
			it := &s.Items[fi]
			pi := x.intn(0, len(it.Params)-1, "param")
			how := x.pick([]string{"same", "copy", "alias", "ptr-control", "variadic-elem", "respell", "respell", "hash-collide"}, "dupflavour")
			if how == "hash-collide" {
				// T, U, T where U is a different type that a structural hash
				// cannot tell from T (same fields in another order)
				mkT := func() *Type {
					return &Type{K: "structlit", Fields: []LitField{{Name: "A", T: Basic("int")}, {Name: "B", T: Basic("string")}}}
				}
				u := &Type{K: "structlit", Fields: []LitField{{Name: "B", T: Basic("string")}, {Name: "A", T: Basic("int")}}}
				extra := []*Type{mkT(), u, mkT()}
				if it.Variadic {
					it.Params = append(extra, it.Params...)
				} else {
					it.Params = append(it.Params, extra...)
				}
				s.Note = "C09 dupparam hash-collide"
				refreshPlan(s)
				return s
			}
			if how == "respell" {
				// identical types spelled differently (byte/uint8, rune/int32,
				// any/interface{}, named function results): pick a parameter
				// that has such a component, if the program has one
				type cand struct{ f, p int }
				var cs []cand
				for _, f := range funcs {
					for p, pt := range s.Items[f].Params {
						if _, ok := Respell(pt); ok {
							cs = append(cs, cand{f, p})
						}
					}
				}
				if len(cs) > 0 {
					c := cs[x.intn(0, len(cs)-1, "respellparam")]
					fi, pi = c.f, c.p
					it = &s.Items[fi]
				} else {
					how = "respell-fresh"
				}
			}
			orig := it.Params[pi]
			var dup *Type
			switch how {
			case "respell-fresh":
				// two new parameters of one type in two spellings
				base := respellPool[x.intn(0, len(respellPool)-1, "respellbase")]
				dup, _ = Respell(base)
				if x.pct(50, "respellorder") {
					base, dup = dup, base
				}
				if it.Variadic {
					it.Params = append([]*Type{base}, it.Params...)
				} else {
					it.Params = append(it.Params, base)
				}
			case "respell":
				dup, _ = Respell(orig)
			case "same":
				dup = orig
			case "copy": // the same type written out a second time (a separate type expression)
				b, _ := json.Marshal(orig)
				dup = &Type{}
				json.Unmarshal(b, dup)
			case "alias":
				s.Decls = append(s.Decls, Decl{Pkg: typeMinPkg(s, orig, len(s.Pkgs)-1), Name: x.fresh("PA"), Form: "alias", Under: orig})
				dup = Named(len(s.Decls) - 1)
			case "ptr-control":
				dup = Ptr(orig)
			case "variadic-elem":
				// f(a []T, b ...T): identical types []T and []T
				if it.Variadic {
					dup = it.Params[len(it.Params)-1]
				} else {
					// the function becomes variadic: a fixed []E and a trailing ...E
					elem := Named(addFreshStruct(s, len(s.Pkgs)-1, x.fresh("VE")))
					it = &s.Items[fi]
					it.Params = append(it.Params, Slice(elem), Slice(elem))
					it.Variadic = true
					s.Note = "C09 dupparam variadic-elem-new"
					refreshPlan(s)
					return s
				}
			}
			if it.Variadic {
				it.Params = append([]*Type{dup}, it.Params...)
			} else {
				it.Params = append(it.Params, dup)
			}
			s.Note = "C09 dupparam " + how
		case "dupfield":
			var structs []int
			for i, it := range s.Items {
				if it.Kind == "struct" && !it.Legacy && len(m.StructInputs(&s.Items[i])) > 0 {
					structs = append(structs, i)
				}
			}
			if len(structs) == 0 {
				s.Note = "C09 none"
				return s
			}
			si := structs[x.intn(0, len(structs)-1, "struct")]
			it := &s.Items[si]
			d := m.StructDecl(it.Out)
			ins := m.StructInputs(it)
			f0 := ins[x.intn(0, len(ins)-1, "field")]
			fn := x.fresh("FD")
			how := x.pick([]string{"same", "alias", "ptr-control", "respell"}, "dupflavour")
			if how == "respell" {
				how = "respell-fresh"
				for _, f := range ins {
					if _, ok := Respell(f.T); ok {
						f0, how = f, "respell"
						break
					}
				}
			}
			ft := f0.T
			switch how {
			case "respell-fresh":
				base := respellPool[x.intn(0, len(respellPool)-1, "respellbase")]
				ft, _ = Respell(base)
				fn0 := x.fresh("FE")
				d.Fields = append(d.Fields, SField{Name: fn0, T: base})
				if !it.Star {
					it.Fields = append(it.Fields, fn0)
				}
			case "respell":
				ft, _ = Respell(ft)
			case "alias":
				s.Decls = append(s.Decls, Decl{Pkg: typeMinPkg(s, ft, len(s.Pkgs)-1), Name: x.fresh("FA"), Form: "alias", Under: ft})
				ft = Named(len(s.Decls) - 1)
				d = m.StructDecl(it.Out)
			case "ptr-control":
				ft = Ptr(ft)
			}
			d.Fields = append(d.Fields, SField{Name: fn, T: ft})
			if !it.Star {
				it.Fields = append(it.Fields, fn)
			}
			s.Note = "C09 dupfield " + how
		case "needs":
			in := &s.Injectors[k]
			needCl, needErr := len(v.ClItems) > 0, len(v.ErrItems) > 0
			in.Cleanup = x.pct(50, "declcleanup")
			in.Err = x.pct(50, "declerr")
			s.Note = fmt.Sprintf("C09 needs cl=%v err=%v decl cl=%v err=%v", needCl, needErr, in.Cleanup, in.Err)
		}
		refreshPlan(s)
		return s
	})
}

// ---------------------------------------------------------------------------
// C11: interface bindings.

func genC11() *rapid.Generator[*Spec] {
	return rapid.Custom(func(t *rapid.T) *Spec {
		if rapid.IntRange(0, 99).Draw(t, "sharedfamily") < 15 {
			s := genShared(rapid.Bool().Draw(t, "defect")).Draw(t, "shared")
			s.Note = "C11 " + s.Note
			return s
		}
		s := baseWF(t, WFOpts{})
		x := &mutCtx{t: t, s: s}
		var binds []int
		for i, it := range s.Items {
			if it.Kind == "bind" {
				binds = append(binds, i)
			}
		}
		if len(binds) == 0 {
			s.Note = "C11 nobind"
			return s
		}
		bi := binds[x.intn(0, len(binds)-1, "bind")]
		it := &s.Items[bi]
		m := NewModel(s)
		mut := x.pick([]string{"argbind", "none", "dropmethod", "ptrrecv", "self", "isolate", "isolate", "unprovide", "ptrconc", "valconc", "unbind", "ifaceconc"}, "mut")
		if mut == "argbind" {
			// a new injector without any provider call: the interface is bound to
			// its SECOND argument, and the first argument implements it too
			need := IfaceMethods(s, it.Out)
			if len(need) == 0 || typeMinPkg(s, it.Out, 0) != 0 && false {
				mut = "none"
			} else {
				mk := func(name string) *Type {
					d := Decl{Pkg: 0, Name: x.fresh(name), Form: "struct", Fields: []SField{{Name: "Tok", T: Basic("int")}}}
					for _, mn := range need {
						d.Methods = append(d.Methods, Method{Name: mn, PtrRecv: true})
					}
					s.Decls = append(s.Decls, d)
					return Ptr(Named(len(s.Decls) - 1))
				}
				first, second := mk("ArgA"), mk("ArgB")
				nb := addItem(s, Item{Kind: "bind", Out: it.Out, Conc: second})
				s.Injectors = append(s.Injectors, Injector{Name: x.fresh("InjectArgBind"), Out: s.Items[bi].Out, Args: []Ref{RItem(nb)},
					Params: []Param{{Name: "zza", T: first}, {Name: "zzb", T: second}}, Panic: x.pct(50, "abpanic")})
				s.Note = "C11 argbind"
				refreshPlan(s)
				return s
			}
		}
		ct := resolveT(s, it.Conc)
		base := ct
		if ct.K == "ptr" {
			base = resolveT(s, ct.Elem)
		}
		switch mut {
		case "dropmethod":
			if base.K == "named" {
				d := &s.Decls[base.Decl]
				need := IfaceMethods(s, it.Out)
				var ms []Method
				dropped := false
				for _, mm := range d.Methods {
					if !dropped && len(need) > 0 && mm.Name == need[len(need)-1] {
						dropped = true
						continue
					}
					ms = append(ms, mm)
				}
				d.Methods = ms
			}
		case "ptrrecv":
			// pointer-receiver methods do not make the value type qualify
			if base.K == "named" {
				d := &s.Decls[base.Decl]
				for mi := range d.Methods {
					d.Methods[mi].PtrRecv = true
				}
			}
		case "self":
			it.Conc = it.Out
		case "isolate":
			// the binding moves into a set of its own: that set does not provide C
			removeItemRefs(s, bi)
			lists := argLists(s)
			li := x.intn(0, len(lists)-1, "list")
			x.place(li, []Ref{RItem(bi)}, typeMinPkg(s, it.Conc, typeMinPkg(s, it.Out, len(s.Pkgs)-1)), []string{"inline", "named"})
		case "unprovide":
			// the concrete type loses its source
			for _, v := range []int{0} {
				_ = v
			}
			ck := m.K(it.Conc)
			for ii := range s.Items {
				for _, src := range m.Sources(ii) {
					if src.Key == ck && s.Items[ii].Kind != "bind" {
						removeItemRefs(s, ii)
					}
				}
			}
			for k := range s.Injectors {
				in := &s.Injectors[k]
				for pi := 0; pi < len(in.Params); pi++ {
					if m.K(in.Params[pi].T) == ck {
						in.Params = append(append([]Param{}, in.Params[:pi]...), in.Params[pi+1:]...)
						if pi == len(in.Params) {
							in.Variadic = false
						}
						pi--
					}
				}
			}
		case "ptrconc":
			// Bind(new(I), new(*T)) although only T is provided
			if ct.K != "ptr" {
				it.Conc = Ptr(it.Conc)
			}
		case "valconc":
			if ct.K == "ptr" {
				it.Conc = ct.Elem
			}
		case "unbind":
			removeItemRefs(s, bi)
		case "ifaceconc":
			// bind to another interface type that lacks a method
			mn := x.fresh("MJ")
			s.Decls = append(s.Decls, Decl{Pkg: len(s.Pkgs) - 1, Name: x.fresh("JX"), Form: "iface", IMeth: []string{mn}})
			jx := len(s.Decls) - 1
			s.Decls = append(s.Decls, Decl{Pkg: s.Decls[jx].Pkg, Name: x.fresh("JImpl"), Form: "struct", Fields: []SField{{Name: "Tok", T: Basic("int")}}, Methods: []Method{{Name: mn}}})
			it.Conc = Named(jx)
			p := addItem(s, Item{Kind: "func", Pkg: s.Decls[jx].Pkg, Name: x.fresh("ProvideJX"), Out: Named(jx)})
			// provide J next to the binding
			for _, l := range argLists(s) {
				for _, rf := range *l {
					if rf.Item == bi {
						*l = append(*l, RItem(p))
						break
					}
				}
			}
		}
		s.Note = "C11 " + mut
		refreshPlan(s)
		return s
	})
}

// ---------------------------------------------------------------------------
// registration

func noteClass(s *Spec) string {
	if s.Note == "" {
		return "unmutated"
	}
	return s.Note
}

func mutProperty(id, level, rule string, gen func() *rapid.Generator[*Spec], focus string, nontrivial func(e *ProgEval, x expectation) bool, build bool, quick, thorough int) {
	judge := func(c *Ctx, e *ProgEval, count bool) *Fail {
		if e.Obs.Status == "skipped" {
			return nil
		}
		x := expect(e)
		f := judgeVerdict(c, e, id, focus)
		if f != nil {
			return f
		}
		if count {
			c.Class(noteClass(e.Spec) + fmt.Sprintf(" -> accept=%v", x.accept))
			if nontrivial(e, x) {
				c.Nontrivial(e.Spec.Hash())
			}
		}
		if x.accept && build && e.Accepted() {
			if f := judgeC01(c, e, false); f != nil {
				f.Kind = id + " accepted program: " + f.Kind
				return f
			}
			if f := judgeC02(c, e, false); f != nil {
				f.Kind = id + " accepted program: " + f.Kind
				return f
			}
		}
		return nil
	}
	Register(&Property{
		ID: id, Level: level, Rule: rule, Assumptions: wfAssume,
		Shards: func(tier string) int {
			if tier == "thorough" {
				return 12
			}
			return 8
		},
		Timeout: func(tier string) time.Duration {
			if tier == "thorough" {
				return 120 * time.Minute
			}
			return 25 * time.Minute
		},
		Run: func(c *Ctx) {
			n := 0
			if id == "C09" && c.Thorough() {
				if !c09Exhaustive(c, judge) {
					return
				}
			}
			Batched(c, id, c.Pick(quick, thorough), time.Duration(c.Pick(90, 300))*time.Second,
				func(t *rapid.T) *Spec { return gen().Draw(t, "program") },
				specKey, evalVerdict(c, build),
				func(s *Spec, e *ProgEval) *Fail {
					n++
					if n%50 == 1 {
						c.Sample(map[string]interface{}{"note": e.Spec.Note, "program": e.Spec, "wire_failed": e.Obs.Failed(), "diagnostics": tailStr(e.Obs.DiagText(), 600)})
					}
					return judge(c, e, true)
				})
		},
		ReplayCase: func(c *Ctx, kind string, raw json.RawMessage) *Fail {
			return replaySpec(c, raw, judge)
		},
	})
}

func hasClass(x expectation, cl string) bool { _, ok := x.classes[cl]; return ok }

func init() {
	mutProperty("C05", "exploration",
		"a rapid-drawn well-formed base program plus one defect: a second source for a type some wire.Build/wire.NewSet already provides. Cells = victim source kind {func, struct value/pointer form, value, interface value, binding, field value/pointer form, injector parameter} x duplicate kind {func, struct, value, interface value, binding, field provider, injector parameter, same set twice} x type flavour {same, alias, written twice, near-miss named-vs-underlying and T-vs-*T as negative controls} x placement {direct, inline set, new named set (any package)} x {wire.Build, nested wire.NewSet incl. parts the injector does not use}. The reference model decides conflict; oracle: conflict => package fails, `multiple bindings for <T>` names a conflicting type, nothing generated; no conflict => verdict by the other documented rules. Non-trivial = model reports a conflict; distinct by program hash; the cell histogram is in coverage.classes.",
		genC05, "multi", func(e *ProgEval, x expectation) bool { return hasClass(x, "multi") }, false, 400, 2500)
	mutProperty("C06", "exploration",
		"a well-formed base program with one needed source removed (leaf, interior, root, behind a binding, behind a field selection, in another package, or an injector parameter) or replaced by a near miss (T<->*T, only the implementing type left for an interface, same-underlying named type; alias as negative control). Oracle: model's missing set non-empty => package fails, `no provider found for <T>` with T in the set, nothing generated. Non-trivial = model reports missing.",
		genC06, "missing", func(e *ProgEval, x expectation) bool { return hasClass(x, "missing") }, false, 400, 2500)
	mutProperty("C08", "exploration",
		"a well-formed base program whose wire.Build gets one superfluous direct argument of kind {provider, value, struct provider, interface value, binding to a provided concrete type, field of a provided struct, named set, inline set, second inline set, an item another injector of the same package uses}, plus the control of moving a needed direct item into a nested set. Oracle: model's unused set non-empty => `unused ...` diagnostic and nothing generated; otherwise accepted. Non-trivial = model reports unused.",
		genC08, "unused", func(e *ProgEval, x expectation) bool { return hasClass(x, "unused") }, false, 400, 2500)
	mutProperty("C09", "exploration",
		"a well-formed base program with one signature edit: provider result list replaced by a shape of length 0-4 over {T, *T, error, func(), alias of func(), named func type, other func type, alias of error, named error-like interface, int} (11111 shapes; lengths 0-2 densely sampled, 3-4 sampled), the same for injector result lists, a duplicated provider parameter (same term, separately written copy, alias, variadic []T vs ...T; *T as control), a duplicated selected struct field type, or the injector's declared error/cleanup results toggled against what its providers need. Oracle = rule table of the statement via the reference model; accepted programs are additionally compiled and executed (C01/C02 oracles). Non-trivial = model rejects for a signature reason.",
		genC09, "", func(e *ProgEval, x expectation) bool {
			return hasClass(x, "sig") || hasClass(x, "dupparam") || hasClass(x, "dupfield") || hasClass(x, "needs-err") || hasClass(x, "needs-cleanup") || hasClass(x, "inj-sig")
		}, true, 400, 2500)
	mutProperty("C11", "exploration",
		"a well-formed base program containing bindings (value/pointer receivers, embedded and unnamed interfaces, other packages; concrete type provided by function, struct provider, value, argument, field, nested set) with one binding edited: a method dropped, receivers made pointer receivers, self binding, binding moved into a set that does not provide the concrete type, concrete type's source removed, *T bound where only T is provided (and vice versa), binding removed (only the implementing type stays provided), bound to a non-implementing interface type. Oracle: accept iff the model's binding validity holds (Go method-set rule); accepted programs are compiled and executed and every consumer of I and of C must see the same instance (C02 oracle). Non-trivial = edited binding; distinct by program hash.",
		genC11, "", func(e *ProgEval, x expectation) bool {
			return strings.HasPrefix(e.Spec.Note, "C11 ") && e.Spec.Note != "C11 nobind"
		}, true, 400, 2500)
}

// c09Exhaustive enumerates every result-list shape of length 0-3 (1111
// shapes) for a provider and for an injector on a fixed two-provider base
// program, split over the shards.
func c09Exhaustive(c *Ctx, judge func(c *Ctx, e *ProgEval, count bool) *Fail) bool {
	var specs []*Spec
	for shape := 0; shape < 1111; shape++ {
		if shape%c.NShards != c.Shard {
			continue
		}
		for _, target := range []string{"provider", "injector"} {
			s := &Spec{ImportAlias: map[int]string{}, Pkgs: []Pkg{{Name: "app"}}}
			a := addFreshStruct(s, 0, "A")
			b := addFreshStruct(s, 0, "B")
			pa := addItem(s, Item{Kind: "func", Name: "ProvideA", Out: Named(a)})
			pb := addItem(s, Item{Kind: "func", Name: "ProvideB", Params: []*Type{Named(a)}, Out: Named(b)})
			in := Injector{Name: "Inject", Out: Named(b), Cleanup: true, Err: true, Panic: true, Args: []Ref{RItem(pa), RItem(pb)}}
			x := &mutCtx{s: s}
			names := shapeFromNumber(shape)
			var rs []*Type
			for _, nm := range names {
				rs = append(rs, resultAtom(x, nm, Named(a)))
			}
			if rs == nil {
				rs = []*Type{}
			}
			if target == "provider" {
				s.Items[pa].RawResults = rs
			} else {
				rs2 := []*Type{}
				for _, nm := range names {
					rs2 = append(rs2, resultAtom(x, nm, Named(b)))
				}
				in.RawResults = rs2
			}
			s.Injectors = []Injector{in}
			s.Note = "C09 exhaustive " + target + " " + strings.Join(names, ",")
			refreshPlan(s)
			specs = append(specs, s)
		}
	}
	es := evalVerdict(c, true)(specs)
	for _, e := range es {
		if f := judge(c, e, true); f != nil {
			c.Violation(f.Kind, f.Msg, e.Spec)
			return false
		}
	}
	c.Res.Notes["exhaustive-shapes"] = "all 1111 result-list shapes of length 0-3 enumerated for a provider and for an injector"
	return true
}
