package props

import (
	"fmt"

	"pgregory.net/rapid"

	. "verif/harness/eng"
)

// genShared draws programs in which several injectors of one package use one
// shared named set, each combined with a different provider (or binding) for
// the same type: the analysis of one injector must not leak into the shared
// set or into the next injector.  With defect set, one injector is left
// without its own source (or binding), so that it must be rejected.
func genShared(defect bool) *rapid.Generator[*Spec] {
	return rapid.Custom(func(t *rapid.T) *Spec {
		s := &Spec{ImportAlias: map[int]string{}, Pkgs: []Pkg{{Name: "app"}}}
		x := &mutCtx{t: t, s: s}
		lib := 0
		if x.pct(50, "libpkg") {
			s.Pkgs = append(s.Pkgs, Pkg{Dir: "lib", Name: "lib"})
			lib = 1
		}
		db := Ptr(Named(addFreshStruct(s, lib, "DB")))
		cfg := Named(addFreshStruct(s, lib, "Cfg"))
		app := Ptr(Named(addFreshStruct(s, lib, "App")))
		// interface Store implemented by *DB, consumed by Report
		s.Decls[db.Elem.Decl].Methods = []Method{{Name: "Get", PtrRecv: x.pct(50, "ptrrecv")}}
		s.Decls = append(s.Decls, Decl{Pkg: lib, Name: "Store", Form: "iface", IMeth: []string{"Get"}})
		store := Named(len(s.Decls) - 1)
		report := Named(addFreshStruct(s, lib, "Report"))
		pCfg := addItem(s, Item{Kind: "func", Pkg: lib, Name: "NewCfg", Out: cfg})
		pApp := addItem(s, Item{Kind: "func", Pkg: lib, Name: "NewApp", Params: []*Type{db, cfg}, Out: app, Cleanup: x.pct(30, "appcl")})
		pReport := addItem(s, Item{Kind: "func", Pkg: lib, Name: "NewReport", Params: []*Type{store}, Out: report})
		useBind := x.pct(50, "usebind")
		// dbInCommon: the shared set itself provides *DB; the variants then differ only in their bindings
		dbInCommon := useBind && x.pct(40, "dbincommon")
		common := []Ref{RItem(pCfg), RItem(pApp)}
		if dbInCommon {
			common = append(common, RItem(addItem(s, Item{Kind: "func", Pkg: lib, Name: "NewSharedDB", Out: db})))
		}
		if useBind {
			common = append(common, RItem(pReport))
		}
		if x.pct(50, "shufflecommon") {
			common = rapid.Permutation(common).Draw(t, "commonorder")
		}
		s.Sets = append(s.Sets, Set{Pkg: lib, Name: "Common", Args: common, AliasOf: -1})
		commonSet := RSet(0)
		nv := x.intn(2, 3, "variants")
		victim := -1
		if defect {
			victim = x.intn(1, nv-1, "victim") // never the first: the leak needs an earlier, complete use
		}
		for k := 0; k < nv; k++ {
			wantReport := useBind && (dbInCommon || x.pct(60, "wantreport"))
			var own []Ref
			if !dbInCommon {
				pDB := addItem(s, Item{Kind: "func", Pkg: lib, Name: fmt.Sprintf("NewDB%d", k), Out: db, Err: x.pct(30, "dberr")})
				own = []Ref{RItem(pDB)}
			}
			var bind Ref
			if wantReport {
				bind = RItem(addItem(s, Item{Kind: "bind", Out: store, Conc: db}))
			}
			missing := ""
			if k == victim {
				if wantReport && (dbInCommon || x.pct(50, "dropbind")) {
					missing = "binding"
				} else {
					missing = "provider"
					own = nil
				}
			}
			if wantReport && missing != "binding" && (len(own) > 0 || dbInCommon) {
				own = append(own, bind)
			}
			// the shared set first or last; own items direct, in a named wrapper, or in an inline wrapper
			var items []Ref
			if x.pct(60, "sharedfirst") {
				items = append([]Ref{commonSet}, own...)
			} else {
				items = append(append([]Ref{}, own...), commonSet)
			}
			in := Injector{Name: fmt.Sprintf("Init%d", k), Cleanup: true, Err: true, Panic: x.pct(50, "panic")}
			switch x.pick([]string{"direct", "wrapper", "wrapper", "inline"}, "placement") {
			case "direct":
				in.Args = items
			case "wrapper":
				s.Sets = append(s.Sets, Set{Pkg: x.intn(0, lib, "wpkg"), Name: fmt.Sprintf("Variant%d", k), Args: items, AliasOf: -1})
				in.Args = []Ref{RSet(len(s.Sets) - 1)}
			default:
				in.Args = []Ref{RInline(items)}
			}
			if wantReport {
				in.Out = report
				// App's provider is then unused inside Common: fine, Common is a set
			} else {
				in.Out = app
			}
			s.Injectors = append(s.Injectors, in)
			if missing != "" {
				s.Note = fmt.Sprintf("shared-set family: injector %d lacks its own %s", k, missing)
			}
		}
		if s.Note == "" {
			s.Note = "shared-set family: all variants complete"
		}
		// plan: fault-free runs
		refreshPlan(s)
		return s
	})
}
