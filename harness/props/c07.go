// Package props holds the per-property generators, oracles and registrations.
package props

import (
	"encoding/json"
	"fmt"
	"sort"
	"strings"
	"time"

	"pgregory.net/rapid"

	"verif/harness/eng"
)

// ---------------------------------------------------------------------------
// C07: dependency cycles are detected and analysis always terminates.
//
// A case is a directed graph over provided types.  Node kinds select the
// edge kind: "func" (provider function parameters), "struct" (wire.Struct
// field list), "field" (wire.FieldsOf: the node is a field of its single
// successor), "bind" (wire.Bind: the node is an interface bound to its single
// successor), "value" (leaf), "missing" (leaf: a type nothing provides, so
// that analysis has to terminate with a missing-input diagnostic when the
// injector's result depends on it).

type GNode struct {
	Kind string `json:"k"`
	Out  []int  `json:"o"`
}

type GCase struct {
	Nodes []GNode `json:"nodes"`
	Root  int     `json:"root"`            // -1: the injector's result does not touch the graph
	Sub   bool    `json:"sub"`             // graph items live in a nested named set
	Parts int     `json:"parts,omitempty"` // >=2: items are spread over that many named sets which are only united by a set listing nothing but sets
	Tag   string  `json:"tag"`
	Alone bool    `json:"alone,omitempty"` // run in its own invocation under the time bound
	// Twin (with Parts >= 2): the graph lives in a package b/tw, a package
	// a/tw with the same package name declares unconnected types of the same
	// names, and only the root package unites the parts and the decoys in one
	// set - so a cycle crossing parts exists only among types whose short
	// printed form ("tw.T3") is shared with an acyclic namesake.
	Twin bool `json:"twin,omitempty"`
}

func (g *GCase) key() string { b, _ := json.Marshal(g); return eng.HashString(string(b)) }

// normalize demotes node kinds whose structural preconditions do not hold so
// that every case renders to a type-correct program.
func (g *GCase) normalize() {
	for i := range g.Nodes {
		n := &g.Nodes[i]
		// dedupe successors (providers may not take two parameters of one type)
		seen := map[int]bool{}
		var out []int
		for _, o := range n.Out {
			if o >= 0 && o < len(g.Nodes) && !seen[o] {
				seen[o] = true
				out = append(out, o)
			}
		}
		n.Out = out
	}
	// bind/field need exactly one successor which is not itself an interface.
	for pass := 0; pass < 2; pass++ {
		for i := range g.Nodes {
			n := &g.Nodes[i]
			switch n.Kind {
			case "bind", "field":
				if len(n.Out) != 1 || n.Out[0] == i && n.Kind == "bind" {
					n.Kind = "func"
				}
			case "value", "missing":
				if len(n.Out) != 0 {
					n.Kind = "func"
				}
			case "struct", "func":
			default:
				n.Kind = "func"
			}
		}
		for i := range g.Nodes {
			n := &g.Nodes[i]
			if (n.Kind == "bind" || n.Kind == "field") && g.Nodes[n.Out[0]].Kind == "bind" {
				n.Kind = "func"
			}
			// a binding to a type nothing provides is a different diagnostic
			if n.Kind == "bind" && g.Nodes[n.Out[0]].Kind == "missing" {
				n.Kind = "func"
			}
		}
	}
	// An interface can be bound only once per concrete... several interfaces
	// may share a concrete type; that is fine.
}

// cyclic is the reference decision: does the graph contain a directed cycle?
// Also reports whether some cycle avoids node 0.
func (g *GCase) cyclic() (any bool, avoiding0 bool) {
	n := len(g.Nodes)
	run := func(skip int) bool {
		color := make([]int, n)
		var dfs func(v int) bool
		dfs = func(v int) bool {
			color[v] = 1
			for _, w := range g.Nodes[v].Out {
				if w == skip {
					continue
				}
				if color[w] == 1 {
					return true
				}
				if color[w] == 0 && dfs(w) {
					return true
				}
			}
			color[v] = 2
			return false
		}
		for v := 0; v < n; v++ {
			if v != skip && color[v] == 0 && dfs(v) {
				return true
			}
		}
		return false
	}
	return run(-1), run(0)
}

// missingNeeded reports whether the injector's result depends on a type
// nothing provides.
func (g *GCase) missingNeeded() bool {
	if g.Root < 0 {
		return false
	}
	seen := make([]bool, len(g.Nodes))
	var dfs func(v int) bool
	dfs = func(v int) bool {
		if seen[v] {
			return false
		}
		seen[v] = true
		if g.Nodes[v].Kind == "missing" {
			return true
		}
		for _, w := range g.Nodes[v].Out {
			if dfs(w) {
				return true
			}
		}
		return false
	}
	return dfs(g.Root)
}

func (g *GCase) ty(i int) string {
	if g.Nodes[i].Kind == "bind" {
		return fmt.Sprintf("T%d", i)
	}
	return fmt.Sprintf("*T%d", i)
}

// render produces the program's files.
func (g *GCase) render(pkg string, prog string) map[string]string {
	var d strings.Builder
	twin := g.Twin && g.Parts >= 2
	if twin {
		fmt.Fprintf(&d, "package tw\n\nimport \"github.com/google/wire\"\n\n")
	} else {
		fmt.Fprintf(&d, "package %s\n\nimport \"github.com/google/wire\"\n\n", pkg)
	}
	n := len(g.Nodes)
	fieldKids := make([][]int, n)
	bindKids := make([][]int, n)
	for i, nd := range g.Nodes {
		if nd.Kind == "field" {
			fieldKids[nd.Out[0]] = append(fieldKids[nd.Out[0]], i)
		}
		if nd.Kind == "bind" {
			bindKids[nd.Out[0]] = append(bindKids[nd.Out[0]], i)
		}
	}
	var items []string
	for i, nd := range g.Nodes {
		if nd.Kind == "bind" {
			fmt.Fprintf(&d, "type T%d interface{ M%d() }\n\n", i, i)
			items = append(items, fmt.Sprintf("wire.Bind(new(T%d), new(*T%d))", i, nd.Out[0]))
			continue
		}
		fmt.Fprintf(&d, "type T%d struct {\n", i)
		if nd.Kind == "struct" {
			for _, o := range nd.Out {
				fmt.Fprintf(&d, "\tF%d %s\n", o, g.ty(o))
			}
		}
		for _, k := range fieldKids[i] {
			fmt.Fprintf(&d, "\tG%d %s\n", k, g.ty(k))
		}
		fmt.Fprintf(&d, "}\n\n")
		for _, k := range bindKids[i] {
			fmt.Fprintf(&d, "func (*T%d) M%d() {}\n\n", i, k)
		}
		switch nd.Kind {
		case "func":
			var ps []string
			for _, o := range nd.Out {
				ps = append(ps, fmt.Sprintf("a%d %s", o, g.ty(o)))
			}
			fmt.Fprintf(&d, "func ProvideT%d(%s) *T%d { return nil }\n\n", i, strings.Join(ps, ", "), i)
			items = append(items, fmt.Sprintf("ProvideT%d", i))
		case "struct":
			args := []string{fmt.Sprintf("new(T%d)", i)}
			for _, o := range nd.Out {
				args = append(args, fmt.Sprintf("%q", fmt.Sprintf("F%d", o)))
			}
			items = append(items, "wire.Struct("+strings.Join(args, ", ")+")")
		case "field":
			items = append(items, fmt.Sprintf("wire.FieldsOf(new(*T%d), \"G%d\")", nd.Out[0], i))
		case "value":
			items = append(items, fmt.Sprintf("wire.Value(&T%d{})", i))
		case "missing":
			items = append(items, "")
		}
	}
	res := "*R"
	if g.Root >= 0 {
		res = g.ty(g.Root)
	}
	var top []string
	for _, it := range items {
		if it != "" {
			top = append(top, it)
		}
	}
	if g.Parts >= 2 {
		// part of node i: bindings must sit with the provider of their concrete type
		partOf := func(i int) int {
			for hops := 0; hops < n && g.Nodes[i].Kind == "bind"; hops++ {
				i = g.Nodes[i].Out[0]
			}
			return i % g.Parts
		}
		parts := make([][]string, g.Parts)
		idx := 0
		for i, nd := range g.Nodes {
			_ = nd
			if items[idx] != "" {
				parts[partOf(i)] = append(parts[partOf(i)], items[idx])
			}
			idx++
		}
		top = nil
		for pi, ps := range parts {
			if len(ps) == 0 {
				fmt.Fprintf(&d, "var Part%d = wire.NewSet()\n\n", pi)
			} else {
				fmt.Fprintf(&d, "var Part%d = wire.NewSet(\n\t%s,\n)\n\n", pi, strings.Join(ps, ",\n\t"))
			}
			top = append(top, fmt.Sprintf("Part%d", pi))
		}
		if g.Root < 0 {
			fmt.Fprintf(&d, "type R struct{}\n\nfunc ProvideR() *R { return nil }\n\nvar PartR = wire.NewSet(ProvideR)\n\n")
			top = append(top, "PartR")
		}
		if twin {
			var a strings.Builder
			fmt.Fprintf(&a, "package tw\n\nimport \"github.com/google/wire\"\n\n")
			var decoys []string
			for i, nd := range g.Nodes {
				if nd.Kind == "bind" {
					continue
				}
				fmt.Fprintf(&a, "type T%d struct{}\n\nfunc ProvideT%d() *T%d { return nil }\n\n", i, i, i)
				decoys = append(decoys, fmt.Sprintf("ProvideT%d", i))
			}
			fmt.Fprintf(&a, "var Set = wire.NewSet(\n\t%s,\n)\n", strings.Join(decoys, ",\n\t"))
			qtop := []string{"atw.Set"}
			for _, x := range top {
				qtop = append(qtop, "btw."+x)
			}
			qres := strings.Replace(res, "T", "btw.T", 1)
			if res == "*R" {
				qres = "*btw.R"
			}
			imp := fmt.Sprintf("import (\n\t\"github.com/google/wire\"\n\n\tatw \"%s/a/tw\"\n\tbtw \"%s/b/tw\"\n)\n\n", eng.ProgPath(prog), eng.ProgPath(prog))
			root := fmt.Sprintf("package %s\n\n%svar Set = wire.NewSet(\n\t%s,\n)\n", pkg, imp, strings.Join(qtop, ",\n\t"))
			inj := fmt.Sprintf("//go:build wireinject\n\npackage %s\n\nimport (\n\t\"github.com/google/wire\"\n\n\tbtw \"%s/b/tw\"\n)\n\nfunc Inject() %s {\n\twire.Build(Set)\n\treturn nil\n}\n", pkg, eng.ProgPath(prog), qres)
			return map[string]string{"b/tw/defs.go": d.String(), "a/tw/defs.go": a.String(), "defs.go": root, "inject.go": inj}
		}
		fmt.Fprintf(&d, "var Set = wire.NewSet(\n\t%s,\n)\n", strings.Join(top, ",\n\t"))
		inj := fmt.Sprintf("//go:build wireinject\n\npackage %s\n\nimport \"github.com/google/wire\"\n\nfunc Inject() %s {\n\twire.Build(Set)\n\treturn nil\n}\n", pkg, res)
		return map[string]string{"defs.go": d.String(), "inject.go": inj}
	}
	if g.Sub {
		fmt.Fprintf(&d, "var Sub = wire.NewSet(\n\t%s,\n)\n\n", strings.Join(top, ",\n\t"))
		top = []string{"Sub"}
	}
	if g.Root < 0 {
		fmt.Fprintf(&d, "type R struct{}\n\nfunc ProvideR() *R { return nil }\n\n")
		top = append(top, "ProvideR")
	}
	fmt.Fprintf(&d, "var Set = wire.NewSet(\n\t%s,\n)\n", strings.Join(top, ",\n\t"))
	inj := fmt.Sprintf("//go:build wireinject\n\npackage %s\n\nimport \"github.com/google/wire\"\n\nfunc Inject() %s {\n\twire.Build(Set)\n\treturn nil\n}\n", pkg, res)
	return map[string]string{"defs.go": d.String(), "inject.go": inj}
}

// c07Obs is the observation of one graph program.
type c07Obs struct {
	Obs    *eng.ProgObs
	HasGen bool
	Bound  time.Duration
}

func c07Judge(g *GCase, o c07Obs) *eng.Fail {
	cyc, _ := g.cyclic()
	switch o.Obs.Status {
	case "timeout":
		return eng.Failf("C07 analysis did not terminate within the calibrated bound", "tag=%s nodes=%d bound=%v", g.Tag, len(g.Nodes), o.Bound)
	case "panic":
		return eng.Failf("C07 wire crashed on a graph program", "%s", o.Obs.Stderr)
	case "loaderr", "silent", "skipped":
		return nil // generator bug or evaluation cut short, accounted by the caller
	}
	txt := o.Obs.DiagText()
	if cyc {
		if !o.Obs.Failed() {
			return eng.Failf("C07 cyclic provider set accepted", "graph %s was accepted (gen file present: %v)", g.key(), o.HasGen)
		}
		if !strings.Contains(txt, "cycle for") {
			return eng.Failf("C07 cyclic provider set rejected without a cycle diagnostic", "diagnostics:\n%s", txt)
		}
		if o.HasGen {
			return eng.Failf("C07 output written for a cyclic provider set", "diagnostics:\n%s", txt)
		}
		return nil
	}
	if g.missingNeeded() {
		// acyclic, but the result depends on a type nothing provides
		if !o.Obs.Failed() {
			return eng.Failf("C07 acyclic provider set with a missing input accepted", "graph %s was accepted (gen file present: %v)", g.key(), o.HasGen)
		}
		if !strings.Contains(txt, "no provider found for") || strings.Contains(txt, "cycle for") {
			return eng.Failf("C07 acyclic provider set with a missing input rejected with the wrong diagnostic", "diagnostics:\n%s", txt)
		}
		return nil
	}
	if o.Obs.Failed() {
		return eng.Failf("C07 acyclic provider set rejected", "diagnostics:\n%s", txt)
	}
	if !o.HasGen {
		return eng.Failf("C07 acyclic program produced no output", "stderr: %s", o.Obs.Stderr)
	}
	return nil
}

// c07Eval evaluates graph programs through the real CLI: batched for ordinary
// cases, one invocation each (under the time bound) for cases marked Alone.
func c07Eval(c *eng.Ctx, bound time.Duration) func(cs []*GCase) []c07Obs {
	return func(cs []*GCase) []c07Obs {
		out := make([]c07Obs, len(cs))
		const batch = 256
		type chunk struct{ lo, hi int }
		var chunks []chunk
		for lo := 0; lo < len(cs); lo += batch {
			hi := lo + batch
			if hi > len(cs) {
				hi = len(cs)
			}
			chunks = append(chunks, chunk{lo, hi})
		}
		eng.Parallel(len(chunks), 4, func(ci int) {
			ch := chunks[ci]
			w, err := eng.NewWorkspace(c)
			if err != nil {
				c.Inconclusive("workspace: " + err.Error())
				return
			}
			defer w.Remove()
			var together []string
			var alone []string
			names := map[int]string{}
			for i := ch.lo; i < ch.hi; i++ {
				name := fmt.Sprintf("g%05d", i)
				names[i] = name
				w.AddProg(name, cs[i].render("g", name))
				if cs[i].Alone {
					alone = append(alone, name)
				} else {
					together = append(together, name)
				}
			}
			stop := func(o *eng.ProgObs) bool { return o.Status == "timeout" || o.Status == "panic" }
			obs := w.GenAll(together, eng.GenOpts{Single: bound, StopOn: stop})
			for _, n := range alone {
				for k, v := range w.GenAll([]string{n}, eng.GenOpts{Single: bound, StopOn: stop}) {
					obs[k] = v
				}
			}
			for i := ch.lo; i < ch.hi; i++ {
				o := obs[names[i]]
				if o == nil {
					o = &eng.ProgObs{Status: "silent"}
				}
				out[i] = c07Obs{Obs: o, HasGen: eng.FileExists(w.Dir + "/progs/" + names[i] + "/wire_gen.go"), Bound: bound}
			}
		})
		for i := range out {
			if out[i].Obs == nil {
				out[i].Obs = &eng.ProgObs{Status: "silent"}
			}
			g := cs[i]
			if out[i].Obs.Status == "skipped" {
				continue
			}
			c.Eval(1)
			if s := out[i].Obs.Status; s == "loaderr" || s == "silent" {
				c.GenBug(fmt.Sprintf("C07 %s graph %s: %s", s, g.key(), out[i].Obs.Stderr))
				continue
			}
			cyc, avoid0 := g.cyclic()
			c.Class(fmt.Sprintf("%s/cyclic=%v", g.Tag, cyc))
			if g.Twin && g.Parts >= 2 {
				c.Class(fmt.Sprintf("twin-packages/cyclic=%v", cyc))
			}
			if avoid0 || g.Alone {
				c.Nontrivial(g.key())
			}
		}
		return out
	}
}

var c07Kinds = []string{"func", "struct", "field", "bind", "value"}

// genKinds assigns node kinds to a fixed edge structure.
func genKinds(adj [][]int) *rapid.Generator[[]string] {
	return rapid.Custom(func(t *rapid.T) []string {
		ks := make([]string, len(adj))
		for i := range adj {
			switch len(adj[i]) {
			case 0:
				ks[i] = rapid.SampledFrom([]string{"func", "struct", "value"}).Draw(t, "k0")
			case 1:
				ks[i] = rapid.SampledFrom([]string{"func", "struct", "field", "bind", "field", "bind"}).Draw(t, "k1")
			default:
				ks[i] = rapid.SampledFrom([]string{"func", "struct"}).Draw(t, "k2")
			}
		}
		return ks
	})
}

// genGraph draws a random graph of 4..40 nodes biased towards lassos,
// several components and cycles closed by binding or field edges.
func genGraph() *rapid.Generator[*GCase] {
	return rapid.Custom(func(t *rapid.T) *GCase {
		n := rapid.IntRange(4, 40).Draw(t, "n")
		mode := rapid.SampledFrom([]string{"dag", "dag", "backedge", "backedge", "backedge", "random", "bindcycle", "bindcycle"}).Draw(t, "mode")
		if mode == "bindcycle" {
			// a consumer of an interface that is bound to a member of a cycle
			m := rapid.IntRange(2, 4).Draw(t, "cyclelen")
			g := &GCase{Tag: "random-bindcycle"}
			// node 0: consumer; node 1: interface; nodes 2..m+1: the cycle; then optional tail
			g.Nodes = append(g.Nodes, GNode{Kind: "func", Out: []int{1}}, GNode{Kind: "bind", Out: []int{2 + rapid.IntRange(0, m-1).Draw(t, "boundto")}})
			for i := 0; i < m; i++ {
				g.Nodes = append(g.Nodes, GNode{Kind: rapid.SampledFrom([]string{"func", "struct"}).Draw(t, "ck"), Out: []int{2 + (i+1)%m}})
			}
			if rapid.Bool().Draw(t, "swap") {
				// move the consumer to the end so that it sorts after the cycle
				last := len(g.Nodes)
				g.Nodes = append(g.Nodes, GNode{Kind: "func", Out: []int{1}})
				g.Nodes[0] = GNode{Kind: "func"}
				_ = last
			}
			g.Root = rapid.SampledFrom([]int{-1, -1, 0}).Draw(t, "root")
			g.Sub = rapid.Bool().Draw(t, "sub")
			g.Parts = rapid.SampledFrom([]int{0, 0, 2, 3}).Draw(t, "parts")
			g.Twin = g.Parts >= 2 && rapid.Bool().Draw(t, "twin")
			g.normalize()
			return g
		}
		adj := make([][]int, n)
		for i := 0; i < n; i++ {
			deg := rapid.IntRange(0, 3).Draw(t, "deg")
			for d := 0; d < deg; d++ {
				switch mode {
				case "random":
					adj[i] = append(adj[i], rapid.IntRange(0, n-1).Draw(t, "to"))
				default:
					if i+1 <= n-1 {
						adj[i] = append(adj[i], rapid.IntRange(i+1, n-1).Draw(t, "to"))
					}
				}
			}
		}
		if mode == "backedge" {
			// close one cycle that (usually) does not contain node 0
			from := rapid.IntRange(1, n-1).Draw(t, "from")
			to := rapid.IntRange(1, from).Draw(t, "back")
			adj[from] = append(adj[from], to)
		}
		g := &GCase{Tag: "random-" + mode}
		// dedupe before choosing kinds so that degree-1 nodes can become field/bind
		for i := range adj {
			seen := map[int]bool{}
			var o []int
			for _, x := range adj[i] {
				if !seen[x] {
					seen[x] = true
					o = append(o, x)
				}
			}
			adj[i] = o
		}
		ks := genKinds(adj).Draw(t, "kinds")
		for i := range adj {
			g.Nodes = append(g.Nodes, GNode{Kind: ks[i], Out: adj[i]})
		}
		g.Root = rapid.SampledFrom([]int{-1, 0, 0}).Draw(t, "root")
		g.Sub = rapid.Bool().Draw(t, "sub")
		g.Parts = rapid.SampledFrom([]int{0, 0, 0, 2, 3, 4}).Draw(t, "parts")
		g.Twin = g.Parts >= 2 && rapid.Bool().Draw(t, "twin")
		if rapid.IntRange(0, 99).Draw(t, "withmissing") < 30 {
			// one or two leaves lose their provider
			var leaves []int
			for i := range g.Nodes {
				if len(g.Nodes[i].Out) == 0 {
					leaves = append(leaves, i)
				}
			}
			for k := 0; k < 2 && len(leaves) > 0; k++ {
				g.Nodes[leaves[rapid.IntRange(0, len(leaves)-1).Draw(t, "missingleaf")]].Kind = "missing"
			}
			g.Tag += "-missing"
		}
		g.normalize()
		return g
	})
}

// smallGraph builds the labelled digraph number code on n nodes (bit i*n+j =
// edge i->j) with kinds drawn from the library generator at the given seed.
func smallGraph(n, code int, seed uint64) *GCase {
	adj := make([][]int, n)
	for i := 0; i < n; i++ {
		for j := 0; j < n; j++ {
			if code&(1<<(i*n+j)) != 0 {
				adj[i] = append(adj[i], j)
			}
		}
	}
	ex := int((seed ^ uint64(code)*0x9e3779b97f4a7c15) & 0x7fffffff)
	ks := genKinds(adj).Example(ex)
	g := &GCase{Tag: fmt.Sprintf("all-%dnode", n)}
	for i := range adj {
		g.Nodes = append(g.Nodes, GNode{Kind: ks[i], Out: adj[i]})
	}
	g.Root = []int{-1, 0}[(ex>>8)&1]
	g.Sub = (ex>>9)&1 == 1
	g.Parts = []int{0, 0, 2, 3}[(ex>>10)&3]
	g.Twin = g.Parts >= 2 && (ex>>12)&1 == 1
	if (ex>>12)&3 == 0 {
		// the last leaf loses its provider
		for i := n - 1; i >= 0; i-- {
			if len(adj[i]) == 0 {
				g.Nodes[i].Kind = "missing"
				g.Tag += "-missing"
				break
			}
		}
	}
	g.normalize()
	return g
}

// stress shapes: path counts explode while node counts stay small.
func lattice(depth int, closeCycle bool, kind string) *GCase {
	g := &GCase{Tag: fmt.Sprintf("lattice-%d", depth), Alone: true, Root: 0}
	// node 0 is the root; layer k has nodes 1+2k, 2+2k
	g.Nodes = append(g.Nodes, GNode{Kind: "func", Out: []int{1, 2}})
	for k := 0; k < depth; k++ {
		a, b := 1+2*k, 2+2*k
		var out []int
		if k+1 < depth {
			out = []int{a + 2, b + 2}
		}
		kd := "func"
		if kind == "mixed" && k%2 == 1 {
			kd = "struct"
		}
		g.Nodes = append(g.Nodes, GNode{Kind: kd, Out: append([]int(nil), out...)}, GNode{Kind: kd, Out: append([]int(nil), out...)})
	}
	if closeCycle {
		g.Tag += "-cyclic"
		last := len(g.Nodes) - 1
		g.Nodes[last].Out = []int{depth} // back to the middle, not to the root
	}
	g.normalize()
	return g
}

func chain(n int, closeCycle bool) *GCase {
	g := &GCase{Tag: fmt.Sprintf("chain-%d", n), Alone: true, Root: 0}
	for i := 0; i < n; i++ {
		var out []int
		if i+1 < n {
			out = []int{i + 1}
		}
		g.Nodes = append(g.Nodes, GNode{Kind: []string{"func", "struct"}[i%2], Out: out})
	}
	if closeCycle {
		g.Tag += "-cyclic"
		g.Nodes[n-1].Out = []int{n / 2}
	}
	g.normalize()
	return g
}

func fan(width int) *GCase {
	g := &GCase{Tag: fmt.Sprintf("fan-%d", width), Alone: true, Root: 0}
	var out []int
	for i := 1; i <= width; i++ {
		out = append(out, i)
	}
	g.Nodes = append(g.Nodes, GNode{Kind: "func", Out: out})
	for i := 1; i <= width; i++ {
		g.Nodes = append(g.Nodes, GNode{Kind: "func", Out: []int{width + 1}})
	}
	g.Nodes = append(g.Nodes, GNode{Kind: "func"})
	g.normalize()
	return g
}

func c07Run(c *eng.Ctx) {
	// calibration: a 10-node chain alone
	cal := chain(10, false)
	pre := c07Eval(c, 5*time.Minute)([]*GCase{cal})
	if pre[0].Obs.Status != "done" || pre[0].Obs.Failed() {
		c.Inconclusive("calibration run failed: " + pre[0].Obs.Stderr)
		return
	}
	bound := 20 * pre[0].Obs.Dur
	if bound < 60*time.Second {
		bound = 60 * time.Second
	}
	ev := c07Eval(c, bound)
	judgeAll := func(cs []*GCase) bool {
		obs := ev(cs)
		for i, g := range cs {
			if f := c07Judge(g, obs[i]); f != nil {
				c.Violation(f.Kind, f.Msg, g)
				return false
			}
			if i%97 == 0 {
				c.Sample(map[string]interface{}{"graph": g, "status": obs[i].Obs.Status, "failed": obs[i].Obs.Failed()})
			}
		}
		return true
	}

	// (a) exhaustive small digraphs, split over shards
	var small []*GCase
	for code := 0; code < 512; code++ {
		if code%c.NShards == c.Shard {
			small = append(small, smallGraph(3, code, c.Seed))
			if c.Thorough() {
				small = append(small, smallGraph(3, code, c.Seed+1))
			}
		}
	}
	if c.Thorough() {
		for code := 0; code < 65536; code++ {
			if code%c.NShards == c.Shard {
				small = append(small, smallGraph(4, code, c.Seed))
			}
		}
	} else {
		// quick: a seed-dependent sample of the 65536 labelled digraphs on 4 nodes
		codes := rapid.SliceOfN(rapid.IntRange(0, 65535), 400, 400).Example(int(c.Seed & 0x7fffffff))
		for _, code := range codes {
			small = append(small, smallGraph(4, code, c.Seed))
		}
	}
	if !judgeAll(small) {
		return
	}
	c.Res.Exhaustive = false
	c.Res.Notes["small-digraphs"] = "all 512 labelled digraphs with self-loops on 3 nodes enumerated (thorough: twice, plus all 65536 on 4 nodes); node kinds and placement drawn per graph"

	// (c) stress shapes (shard 0 and 1 share them)
	var stress []*GCase
	if c.Shard == 0 {
		stress = append(stress, lattice(10, false, "func"), lattice(40, false, "func"), chain(1000, false), fan(150))
		if c.Thorough() {
			stress = append(stress, lattice(60, false, "mixed"), chain(2500, false), fan(400))
		}
	}
	if c.Shard == 1%c.NShards {
		stress = append(stress, lattice(40, true, "mixed"), lattice(25, false, "mixed"), chain(1000, true))
		if c.Thorough() {
			stress = append(stress, lattice(60, true, "func"), chain(2500, true))
		}
	}
	if !judgeAll(stress) {
		return
	}

	// (b) random larger graphs, shrunk by rapid on failure
	checks := c.Pick(60, 600)
	eng.Batched(c, "C07", checks, time.Duration(c.Pick(60, 240))*time.Second,
		func(t *rapid.T) *GCase { return genGraph().Draw(t, "graph") },
		func(g *GCase) string { return g.key() },
		ev,
		func(g *GCase, o c07Obs) *eng.Fail { return c07Judge(g, o) })
}

func c07Replay(c *eng.Ctx, kind string, raw json.RawMessage) *eng.Fail {
	var g GCase
	if err := json.Unmarshal(raw, &g); err != nil {
		c.Inconclusive("bad replay case: " + err.Error())
		return nil
	}
	g.normalize()
	obs := c07Eval(c, 5*time.Minute)([]*GCase{&g})
	return c07Judge(&g, obs[0])
}

func init() {
	eng.Register(&eng.Property{
		ID:    "C07",
		Level: "exploration",
		Rule:  "cases are provider graphs rendered as Wire programs and run through `wire gen` built from /repo: every labelled digraph with self-loops on 3 nodes (thorough: also on 4 nodes), rapid-drawn graphs of 4-40 nodes (DAGs, one back edge, random), and stress shapes (diamond lattices up to 2^40/2^60 paths, chains, fans) run alone under a calibrated time bound; edge kinds (function parameter, struct field, field->parent, interface binding) are drawn per node; oracle = reference DFS cycle decision vs exit status, `cycle for` diagnostic and absence/presence of wire_gen.go. Non-trivial = graph with a cycle that avoids node 0 (the first search root), or a stress shape; distinct by hash of the graph.",
		Assumptions: []string{
			"termination is checked as completion within max(60s, 20x a calibration run) on generated inputs; it cannot be established for all inputs by testing",
			"the go toolchain's package loading (go list) is trusted",
		},
		Shards: func(tier string) int {
			if tier == "thorough" {
				return 16
			}
			return 8
		},
		Timeout: func(tier string) time.Duration {
			return map[string]time.Duration{"quick": 20 * time.Minute, "thorough": 90 * time.Minute}[tier]
		},
		Run:        c07Run,
		ReplayCase: c07Replay,
	})
}

var _ = sort.Strings
